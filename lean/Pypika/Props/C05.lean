import Pypika.RenderEqns
/-!
# C05 — INSERT, UPDATE and DELETE statements have exactly the intended effect

The kernel carries the *placement* part of the property for every statement: the VALUES grid is the rows in call
order and, within a row, the values in the order given (cell (i, j) of the text is the rendering of value j of
row i and nothing else); SET pairs are the pairs in call order, column then value; the column list is the columns
in call order; and which of the statement forms is written.  What the engine then does with that text is
decided by applying it (harness/props/c05.py).
-/
namespace Pypika.C05
open Pypika

/-- **every value lands in the row and column it was given for**: the VALUES grid is the map of the rows, each
    row the comma-joined map of its values -/
theorem values_grid (c : Ctx) (rows : List (List Term)) :
    renderRows c rows = rows.map (fun r => joinDocs (K ",") (r.map (render c))) := by
  have hL : ∀ l : List Term, renderL c l = l.map (render c) := by
    intro l; induction l with
    | nil => rfl
    | cons s l ih => rw [renderL_eq_2, ih]; rfl
  induction rows with
  | nil => rfl
  | cons r rs ih => rw [renderRows_eq_2, ih, hL]; rfl

/-- cell (i, j) of the grid is the rendering of value j of row i (same context for every cell) -/
theorem row_cell (c : Ctx) (rows : List (List Term)) (i : Nat) (hi : i < rows.length) :
    (renderRows c rows)[i]'(by rw [values_grid]; simpa using hi) =
      joinDocs (K ",") ((rows[i]).map (render c)) := by
  simp [values_grid]

/-- the column list is the columns in call order -/
theorem columns_in_order (c : Ctx) (l : List Term) : renderL c l = l.map (render c) := by
  induction l with
  | nil => rfl
  | cons s l ih => rw [renderL_eq_2, ih]; rfl

/-- SET pairs in call order, each `column=value` with the value given for that column -/
theorem set_pairs_in_order (cf cv : Ctx) (ps : List (Term × Term)) :
    renderPairs cf cv ps = ps.map (fun p => render cf p.1 ++ kws "=" :: render cv p.2) := by
  induction ps with
  | nil => rfl
  | cons p ps ih => obtain ⟨f, v⟩ := p; rw [renderPairs_eq_2, ih]; rfl

/-- the kwargs the clauses of a DML statement see -/
def stmtCtx (c : Ctx) (fl : QFlags) (from_ : List Src) (joins : List Join) (hasUpdate : Bool) : Ctx :=
  queryCtx c fl (wantsNamespace fl (!joins.isEmpty) from_.length (fromIsQuery from_) hasUpdate)

/-- the three statement heads of the SQLite class -/
theorem insert_head_forms (fl : QFlags) (hcls : fl.cls = .sqlite) :
    insertHead fl =
      if fl.replace_ then (if fl.insertOrReplace then K "INSERT OR " ++ K "REPLACE INTO " else K "REPLACE INTO ")
      else if fl.ignore then K "INSERT IGNORE INTO " else K "INSERT INTO " := by
  cases hr : fl.replace_ <;> cases ho : fl.insertOrReplace <;> cases hi : fl.ignore <;> simp [insertHead, hcls, hr, ho, hi, opt]

/-- **INSERT ... VALUES**: head, table, optional column list, then the grid — and nothing else (no WHERE, no
    FROM, no pagination leaks into it) -/
theorem insert_layout (c : Ctx) (fl : QFlags) (from_ : List Src) (withs : List (Str × Src)) (selects : List Term) (t : Src)
    (columns : List Term) (values : List (List Term)) (wheres prewheres havings : Option Term) (groupbys : List Term)
    (orderbys : List (Term × Option Ord)) (joins : List Join) (updates : List (Term × Term)) (usingSrcs : List Src)
    (dup : List (Term × Term)) (rets ocf : List Term) (ocdu : List (Term × Option Term)) (ocw ocduw : Option Term)
    (don lbt : List Term)
    (hcls : fl.cls = .sqlite) (hdel : fl.deleteFrom = false) (hinto : fl.selectInto = false) (hv : values ≠ []) :
    renderQuery c (.mk fl from_ withs selects (some t) none columns values wheres prewheres havings groupbys orderbys joins
        updates usingSrcs dup rets ocf ocdu ocw ocduw don lbt) =
      let k := stmtCtx c fl from_ joins false
      opt (!withs.isEmpty) (kws "WITH " :: joinDocs (K ",") (renderWiths k withs)) ++ insertHead fl ++ renderSrc k t ++
        opt (!columns.isEmpty) (kws " (" :: joinDocs (K ",") (renderL { k with withNamespace := false } columns) ++ K ")") ++
        kws " VALUES (" :: joinDocs (K "),(") (renderRows { k with withAlias := true, subquery := true } values) ++ K ")" := by
  have hne : values.isEmpty = false := by cases values <;> simp_all
  rw [renderQuery_eq_1]
  simp only [hinted, hcls, hdel, hinto, hne, queryIsEmpty, Option.isSome_none, Option.isSome_some, Bool.false_and, Bool.and_false,
    Bool.or_false, Bool.not_false, Bool.and_true, Bool.false_or, Bool.false_eq_true, if_false, stmtCtx, opt,
    List.append_assoc, reduceCtorEq, Bool.and_self, List.nil_append, List.append_nil, decide_false, Bool.true_and,
    Bool.not_true, Bool.true_eq_false, if_true, renderOptSrc_eq_2]

/-- **UPDATE**: table, SET pairs, WHERE — in that order -/
theorem update_layout (c : Ctx) (fl : QFlags) (withs : List (Str × Src)) (selects : List Term) (t : Src)
    (columns : List Term) (values : List (List Term)) (wheres prewheres havings : Option Term) (groupbys : List Term)
    (orderbys : List (Term × Option Ord)) (updates : List (Term × Term)) (usingSrcs : List Src)
    (dup : List (Term × Term)) (rets ocf : List Term) (ocdu : List (Term × Option Term)) (ocw ocduw : Option Term)
    (don lbt : List Term)
    (hcls : fl.cls = .sqlite) (hu : updates ≠ []) (hlim : fl.limit = none) :
    renderQuery c (.mk fl [] withs selects none (some t) columns values wheres prewheres havings groupbys orderbys []
        updates usingSrcs dup rets ocf ocdu ocw ocduw don lbt) =
      let k := stmtCtx c fl [] [] true
      opt (!withs.isEmpty) (kws "WITH " :: joinDocs (K ",") (renderWiths k withs)) ++ kws "UPDATE " :: renderSrc k t ++
        kws " SET " :: joinDocs (K ",") (renderPairs { k with withNamespace := false } k updates) ++
        opt wheres.isSome (K " WHERE ") ++ renderOpt { k with quote := .given k.q, subquery := true } wheres := by
  have hne : updates.isEmpty = false := by cases updates <;> simp_all
  rw [renderQuery_eq_1]
  simp only [hinted, hcls, hne, hlim, queryIsEmpty, Option.isSome_some, Option.isSome_none, Bool.false_and, Bool.and_false,
    Bool.or_false, Bool.not_false, Bool.and_true, Bool.false_or, Bool.false_eq_true, if_false, stmtCtx, opt,
    List.append_assoc, reduceCtorEq, Bool.and_self, List.nil_append, List.append_nil, decide_false, Bool.true_and,
    Bool.not_true, Bool.true_eq_false, if_true, renderOptSrc_eq_2, List.isEmpty_nil, List.length_nil, Bool.or_self]

/-- **DELETE**: `DELETE FROM` table, then WHERE (the generic clause chain with the DELETE head; no select list) -/
theorem delete_layout (c : Ctx) (fl : QFlags) (t : Src) (selects : List Term)
    (columns : List Term) (values : List (List Term)) (wheres : Option Term)
    (updates : List (Term × Term))
    (dup : List (Term × Term)) (rets ocf : List Term) (ocdu : List (Term × Option Term)) (ocw ocduw : Option Term)
    (don lbt : List Term)
    (hcls : fl.cls = .sqlite) (hdel : fl.deleteFrom = true) (hfi : fl.forceIndexes = []) (hui : fl.useIndexes = [])
    (hlim : fl.limit = none) (hoff : fl.offset = none) (hfu : fl.forUpdate = false) (hsub : c.subquery = false)
    (hal : c.withAlias = false) :
    renderQuery c (.mk fl [t] [] selects none none columns values wheres none none [] [] []
        updates [] dup rets ocf ocdu ocw ocduw don lbt) =
      let k := stmtCtx c fl [t] [] false
      K "DELETE" ++ kws " FROM " :: renderSrc { k with withNamespace := false, subquery := true, withAlias := true } t ++
        opt wheres.isSome (K " WHERE ") ++ renderOpt { k with quote := .given k.q, subquery := true } wheres := by
  rw [renderQuery_eq_1]
  simp [hinted, hcls, hdel, hfi, hui, hlim, hoff, hfu, hsub, hal, queryIsEmpty, stmtCtx, opt, fromClause, indexDoc, paginate,
    forUpdateDoc, parensIf, renderSrcL_eq_2, renderSrcL_eq_1, joinDocs, renderOpt_eq_1]

/-- **INSERT ... SELECT**: head, table, column list, then the SELECT with its own clause chain -/
theorem insert_select_layout (c : Ctx) (fl : QFlags) (from_ : List Src) (selects : List Term) (t : Src)
    (columns : List Term) (wheres : Option Term)
    (updates : List (Term × Term))
    (dup : List (Term × Term)) (rets ocf : List Term) (ocdu : List (Term × Option Term)) (ocw ocduw : Option Term)
    (don lbt : List Term)
    (hcls : fl.cls = .sqlite) (hdel : fl.deleteFrom = false) (hinto : fl.selectInto = false) (hsel : selects ≠ [])
    (hfi : fl.forceIndexes = []) (hui : fl.useIndexes = [])
    (hlim : fl.limit = none) (hoff : fl.offset = none) (hfu : fl.forUpdate = false) (hsub : c.subquery = false)
    (hal : c.withAlias = false) (hd : fl.distinct = false) (hf : from_ ≠ []) :
    renderQuery c (.mk fl from_ [] selects (some t) none columns [] wheres none none [] [] []
        updates [] dup rets ocf ocdu ocw ocduw don lbt) =
      let k := stmtCtx c fl from_ [] false
      insertHead fl ++ renderSrc k t ++
        opt (!columns.isEmpty) (kws " (" :: joinDocs (K ",") (renderL { k with withNamespace := false } columns) ++ K ")") ++
        kws " " :: kws "SELECT " :: joinDocs (K ",") (renderL { k with withAlias := true, subquery := true } selects) ++
        kws " FROM " :: joinDocs (K ",") (renderSrcL { k with withNamespace := false, subquery := true, withAlias := true } from_) ++
        opt wheres.isSome (K " WHERE ") ++ renderOpt { k with quote := .given k.q, subquery := true } wheres := by
  have hne : selects.isEmpty = false := by cases selects <;> simp_all
  have hfe : from_.isEmpty = false := by cases from_ <;> simp_all
  rw [renderQuery_eq_1]
  simp [hinted, hcls, hdel, hinto, hne, hfe, hfi, hui, hlim, hoff, hfu, hsub, hal, hd, queryIsEmpty, stmtCtx, opt, fromClause, indexDoc,
    paginate, forUpdateDoc, parensIf, selectPrefix, renderOpt_eq_1, renderOptSrc_eq_2]

end Pypika.C05
