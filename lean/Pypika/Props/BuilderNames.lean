import Pypika.Props.Builder
import Pypika.Props.C10
/-!
# C10, concrete builder: the names invented for un-aliased sub-queries are those of `C10.tagCalls`, hence pairwise distinct

Refinement from the concrete `B.step` (`from_` / `join` with real sub-queries, all join completions, the criterion
validation that may reject a join) to the numbering rule of `Names.lean`.
-/
namespace Pypika.B
open Pypika

theorem Src.withAlias_alias (q : Query) (a : Str) : ((Src.query q).withAlias a).alias? = some a := by
  cases q; rfl

/-- the concrete `join()` of an un-aliased sub-query: whichever way the join is completed, an accepted call advances the
    statement's counter exactly as `C10.tagStep` says and the joined item carries exactly that name -/
theorem join_tags (s s' : St) (q : Query) (how : Str) (kind : JoinKind) (hq : q.fl.alias = none)
    (h : step s (.join (.query q) how kind) = .ok s') :
    s'.subCount = (C10.tagStep s.subCount .join).2 ∧
      ∃ j, s'.r.joins = s.r.joins ++ [j] ∧ j.item.alias? = some (C10.tagStep s.subCount .join).1 := by
  have ha : (Src.query q).alias? = none := by simp [Src.alias?, hq]
  obtain ⟨qa, hqa⟩ : ∃ qa, (Src.query q).withAlias (C10.sqName s.subCount) = .query qa := by cases q; exact ⟨_, rfl⟩
  have hal : (Src.query qa).alias? = some (C10.sqName s.subCount) := by rw [← hqa]; exact Src.withAlias_alias q _
  simp only [step, Src.isQuery, ha, Option.isNone_none, Bool.and_self, if_true, hqa] at h
  cases kind with
  | cross =>
    simp [pure, Except.pure] at h; subst h
    exact ⟨rfl, _, rfl, hal⟩
  | «using» names =>
    cases names with
    | nil => simp [B.raise] at h
    | cons n ns => simp [pure, Except.pure] at h; subst h; exact ⟨rfl, _, rfl, hal⟩
  | on crit collate =>
    cases crit with
    | none => simp [B.raise] at h
    | some c =>
      simp only at h
      split at h
      · simp [B.raise] at h
      · simp [pure, Except.pure] at h; subst h; exact ⟨rfl, _, rfl, hal⟩
  | onField names =>
    cases names with
    | nil => simp [B.raise] at h
    | cons n ns =>
      simp only at h
      split at h
      · simp [B.raise] at h
      · split at h
        · split at h
          · simp [B.raise] at h
          · simp [pure, Except.pure] at h; subst h; exact ⟨rfl, _, rfl, hal⟩
        · simp [B.raise] at h

/-- which calls invent a name: `from_` / `join` of a sub-query that has no alias yet -/
def tagOfCall : Call → Option C10.TagCall
  | .from_ (.query q) sub => if q.fl.alias = none then some (.from_ sub) else none
  | .join (.query q) _ _ => if q.fl.alias = none then some .join else none
  | _ => none

/-- the name the statement carries for the source a call added -/
def nameAdded (s' : St) : Call → Option Str
  | .from_ .. => s'.r.from_.getLast?.bind Src.alias?
  | .join .. => s'.r.joins.getLast?.bind fun j => j.item.alias?
  | _ => none

/-- one accepted naming call of the concrete builder = one step of `C10.tagStep` -/
theorem step_tags (s s' : St) (c : Call) (tc : C10.TagCall) (ht : tagOfCall c = some tc) (h : step s c = .ok s') :
    s'.subCount = (C10.tagStep s.subCount tc).2 ∧ nameAdded s' c = some (C10.tagStep s.subCount tc).1 := by
  cases c
  case from_ src sub =>
    cases src
    case query q =>
      by_cases hq : q.fl.alias = none
      · simp [tagOfCall, hq] at ht; subst ht
        rw [from_tags s q sub hq] at h
        simp at h; subst h
        refine ⟨rfl, ?_⟩
        simp [nameAdded, Src.withAlias_alias]
      · simp [tagOfCall, hq] at ht
    all_goals simp [tagOfCall] at ht
  case join item how kind =>
    cases item
    case query q =>
      by_cases hq : q.fl.alias = none
      · simp [tagOfCall, hq] at ht; subst ht
        obtain ⟨h1, j, h2, h3⟩ := join_tags s s' q how kind hq h
        refine ⟨h1, ?_⟩
        simp [nameAdded, h2, h3]
      · simp [tagOfCall, hq] at ht
    all_goals simp [tagOfCall] at ht
  all_goals simp [tagOfCall] at ht

/-- the names a sequence of naming calls gives, read off the states the concrete builder goes through -/
def namesGiven : St → List Call → List (Option Str)
  | _, [] => []
  | s, c :: cs => match step s c with
    | .ok s' => nameAdded s' c :: namesGiven s' cs
    | .error _ => []

/-- **C10, concrete builder**: in any accepted sequence of `from_` / `join` calls with un-aliased sub-queries the names
    given are exactly those of `C10.tagCalls` … -/
theorem namesGiven_eq_tagCalls (s s' : St) (cs : List Call) (tcs : List C10.TagCall)
    (ht : cs.map tagOfCall = tcs.map some) (h : run s cs = .ok s') :
    namesGiven s cs = (C10.tagCalls s.subCount tcs).map some := by
  induction cs generalizing s tcs with
  | nil => cases tcs <;> simp_all [namesGiven, C10.tagCalls]
  | cons c cs ih =>
    cases tcs with
    | nil => simp at ht
    | cons tc tcs =>
      simp only [List.map, List.cons.injEq] at ht
      simp only [run, bind, Except.bind] at h
      cases hs : step s c with
      | error e => rw [hs] at h; simp at h
      | ok s1 =>
        rw [hs] at h
        obtain ⟨h1, h2⟩ := step_tags s s1 c tc ht.1 hs
        simp only [namesGiven, hs, C10.tagCalls, List.map, h2]
        rw [ih s1 tcs ht.2 h, h1]

/-- … and therefore pairwise distinct (`C10.invented_names_distinct_calls`) -/
theorem names_given_distinct (s s' : St) (cs : List Call) (tcs : List C10.TagCall)
    (ht : cs.map tagOfCall = tcs.map some) (h : run s cs = .ok s') : (namesGiven s cs).Nodup := by
  rw [namesGiven_eq_tagCalls s s' cs tcs ht h]
  exact List.Pairwise.map some (fun a b (hab : a ≠ b) hh => hab (Option.some.inj hh)) (C10.invented_names_distinct_calls s.subCount tcs)

end Pypika.B
