import Pypika.Crit
/-!
# C19 — empty criteria are neutral and all/any fold filters in order
-/
namespace Pypika.C19
open Pypika

/-- the empty criterion is the identity of AND, OR and XOR on either side -/
theorem empty_left (op : BoolOp) (a : Term) : combine op .empty a = a := by simp [combine, Term.isEmpty]
theorem empty_right (op : BoolOp) (a : Term) : combine op a .empty = a := by
  unfold combine; cases h : a.isEmpty <;> simp [Term.isEmpty]
  cases a <;> simp_all [Term.isEmpty]

/-- … and is its own negation -/
theorem invert_empty : invert .empty = .empty := by simp [invert, Term.isEmpty]

/-- folding from an accumulator: empties in the list never change the result -/
theorem foldl_filter (op : BoolOp) (cs : List Term) (acc : Term) :
    cs.foldl (combine op) acc = (cs.filter (fun t => !t.isEmpty)).foldl (combine op) acc := by
  induction cs generalizing acc with
  | nil => rfl
  | cons t ts ih =>
    cases h : t.isEmpty
    · simp [List.foldl, List.filter, h, ih]
    · have ht : t = .empty := by cases t <;> simp_all [Term.isEmpty]
      subst ht
      simp [List.foldl, List.filter, Term.isEmpty, empty_right, ih]

/-- **`Criterion.all(cs)` = left-to-right AND of the non-empty members**, for every list -/
theorem all_eq_fold (cs : List Term) : allOf cs = allOf (cs.filter (fun t => !t.isEmpty)) :=
  foldl_filter .and_ cs .empty
theorem any_eq_fold (cs : List Term) : anyOf cs = anyOf (cs.filter (fun t => !t.isEmpty)) :=
  foldl_filter .or_ cs .empty

/-- on non-empty members the fold is the plain left-nested chain -/
def chain (op : BoolOp) : Term → List Term → Term
  | acc, [] => acc
  | acc, t :: ts => chain op (.complex op acc t none) ts

theorem fold_nonempty (op : BoolOp) (cs : List Term) (acc : Term) (ha : acc.isEmpty = false)
    (h : ∀ t ∈ cs, t.isEmpty = false) : cs.foldl (combine op) acc = chain op acc cs := by
  induction cs generalizing acc with
  | nil => rfl
  | cons t ts ih =>
    have ht := h t (by simp)
    simp only [List.foldl, chain, combine, ha, ht]
    exact ih _ (by simp [Term.isEmpty]) (fun x hx => h x (by simp [hx]))

/-- adding an empty criterion anywhere never changes `all` / `any` -/
theorem insert_empty (op : BoolOp) (pre post : List Term) :
    (pre ++ .empty :: post).foldl (combine op) .empty = (pre ++ post).foldl (combine op) .empty := by
  rw [foldl_filter, foldl_filter op (pre ++ post)]
  simp [List.filter_append, List.filter, Term.isEmpty]

theorem combine_nonempty (op : BoolOp) (a b : Term) (ha : a.isEmpty = false) (hb : b.isEmpty = false) :
    combine op a b = .complex op a b none ∧ (combine op a b).isEmpty = false := by
  simp only [combine, ha, hb, Bool.false_eq_true, if_false]
  exact ⟨trivial, rfl⟩

/-- the where-slot after any sequence of `where()` calls is never a dangling (empty) criterion -/
theorem where_never_empty (cs : List Term) (w : Option Term) (hw : ∀ x, w = some x → x.isEmpty = false) :
    ∀ x, cs.foldl whereStep w = some x → x.isEmpty = false := by
  induction cs generalizing w with
  | nil => simpa using hw
  | cons c cs ih =>
    apply ih
    intro x hx
    unfold whereStep at hx
    cases hc : c.isEmpty
    · simp only [hc, Bool.false_eq_true, if_false] at hx
      cases w with
      | none => simp at hx; subst hx; exact hc
      | some y =>
        simp at hx; subst hx
        exact (combine_nonempty _ y c (hw y rfl) hc).2
    · simp only [hc, if_true] at hx; exact hw x hx

/-- the slot holding a criterion, `None` when nothing was added -/
def slotOf (t : Term) : Option Term := if t.isEmpty then none else some t

/-- successive `where()` calls = one call with their conjunction `Criterion.all(cs)` -/
theorem where_all (cs : List Term) : cs.foldl whereStep none = slotOf (allOf cs) := by
  suffices h : ∀ (w : Option Term) (acc : Term), (∀ x, w = some x → x.isEmpty = false) →
      (w = none ∧ acc = .empty ∨ w = some acc) →
      cs.foldl whereStep w = slotOf (cs.foldl (combine .and_) acc) by
    exact h none .empty (by simp) (Or.inl ⟨rfl, rfl⟩)
  induction cs with
  | nil =>
    intro w acc hw h
    rcases h with ⟨h1, h2⟩ | h
    · subst h1; subst h2; simp [slotOf, Term.isEmpty]
    · subst h; simp [slotOf, hw acc rfl]
  | cons c cs ih =>
    intro w acc hw h
    rw [List.foldl_cons, List.foldl_cons]
    cases hc : c.isEmpty
    · -- non-empty criterion: it is stored / AND-ed
      rcases h with ⟨h1, h2⟩ | h
      · subst h1; subst h2
        rw [empty_left]
        have e : whereStep none c = some c := by simp [whereStep, hc]
        rw [e]
        exact ih (some c) c (by intro x hx; simp at hx; subst hx; exact hc) (Or.inr rfl)
      · subst h
        have hacc := hw acc rfl
        have e : whereStep (some acc) c = some (combine .and_ acc c) := by simp [whereStep, hc]
        rw [e]
        exact ih _ _ (by intro x hx; simp at hx; subst hx; exact (combine_nonempty _ acc c hacc hc).2) (Or.inr rfl)
    · -- empty criterion: ignored by where() and neutral for `&`
      have hce : c = .empty := by cases c <;> simp_all [Term.isEmpty]
      subst hce
      have e1 : whereStep w .empty = w := by simp [whereStep, Term.isEmpty]
      rw [e1, empty_right]
      exact ih w acc hw h

/-- non-vacuity -/
example : allOf [.empty, .field ['a'] none none, .empty, .field ['b'] none none] =
    .complex .and_ (.field ['a'] none none) (.field ['b'] none none) none := by
  simp [allOf, List.foldl, combine, Term.isEmpty]

end Pypika.C19
