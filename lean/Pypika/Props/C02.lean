import Pypika.Spec.Grammar
/-!
# C02 — rendered expressions keep the operator structure the user built

`renderTok` is pypika's parenthesisation policy — the model's own `leftNeedsParens` /
`rightNeedsParens` (tied to `/repo` by `Agree.left_parens` / `Agree.right_parens`), the
`ArithmeticExpression` rule "a right operand of `-` that starts with a minus sign is
parenthesised" and the `Negative` rule — applied to an abstract tree.

`render_sound`: for every tree (any depth), the token list derives, in the layered grammar,
a tree that denotes the same function of the leaves in every algebra satisfying the four
re-association identities.
-/
namespace Pypika.C02
open Pypika Pypika.Spec

def topOp : Tree → TopOp | .bin o _ _ => .op o | _ => .none
def isOp : TopOp → Bool | .op _ => true | _ => false

def wrap (b : Bool) (ts : List Tok) : List Tok := if b then .lp :: ts ++ [.rp] else ts
def startsMinusTok : List Tok → Bool | .op .sub :: _ => true | _ => false

/-- token-level transcription of `ArithmeticExpression.get_sql` / `Negative.get_sql` -/
def renderTok : Tree → List Tok
  | .leaf a => [.atom a]
  | .neg t => .op .sub :: wrap (isOp (topOp t) || startsMinusTok (renderTok t)) (renderTok t)
  | .bin o l r =>
      wrap (leftNeedsParens o (topOp l)) (renderTok l) ++ .op o ::
        wrap (rightNeedsParens o (topOp r) || (o = .sub && startsMinusTok (renderTok r))) (renderTok r)

def lvlOf : Tree → Nat | .bin o _ _ => lvl o | _ => 3

theorem lvl_le (o : Arith) : lvl o ≤ 2 := by cases o <;> simp [lvl]
theorem lvlOf_le (t : Tree) : lvlOf t ≤ 3 := by
  cases t <;> simp [lvlOf]; rename_i o _ _; have := lvl_le o; omega

section
variable {α : Type} (A : Alg α) (env : Nat → α)

/-- appending an un-parenthesised additive chain to the right of `+` -/
theorem absorb_add {n r tr} (hr : G n r tr) : n = 1 → ∀ l tl, G 1 l tl →
    ∃ t', G 1 (l ++ .op .add :: r) t' ∧ eval A env t' = A.add (eval A env tl) (eval A env tr) := by
  induction hr with
  | atom a => intro h; omega
  | paren _ _ => intro h; omega
  | neg _ _ => intro h; omega
  | @up n ts t hn h2 _ =>
    intro hn1 l tl hl
    subst hn1
    exact ⟨_, G.bin rfl hl h2, rfl⟩
  | @bin n o r1 r2 t1 t2 ho h1 h2 ih1 _ =>
    intro hn1 l tl hl
    subst hn1
    obtain ⟨t1', g1, e1⟩ := ih1 rfl l tl hl
    refine ⟨.bin o t1' t2, ?_, ?_⟩
    · have := G.bin ho g1 h2
      simpa [List.append_assoc] using this
    · cases o <;> simp [lvl] at ho <;> simp [eval, Alg.ap, e1, A.add_add, A.add_sub]

theorem absorb_mul {n r tr} (hr : G n r tr) : n = 2 → ∀ l tl, G 2 l tl →
    ∃ t', G 2 (l ++ .op .mul :: r) t' ∧ eval A env t' = A.mul (eval A env tl) (eval A env tr) := by
  induction hr with
  | atom a => intro h; omega
  | paren _ _ => intro h; omega
  | neg _ _ => intro h; omega
  | @up n ts t hn h2 _ =>
    intro hn1 l tl hl
    subst hn1
    exact ⟨_, G.bin rfl hl h2, rfl⟩
  | @bin n o r1 r2 t1 t2 ho h1 h2 ih1 _ =>
    intro hn1 l tl hl
    subst hn1
    obtain ⟨t1', g1, e1⟩ := ih1 rfl l tl hl
    refine ⟨.bin o t1' t2, ?_, ?_⟩
    · have := G.bin ho g1 h2
      simpa [List.append_assoc] using this
    · cases o <;> simp [lvl] at ho <;> simp [eval, Alg.ap, e1, A.mul_mul, A.mul_div]
end

theorem wrap_G {ts t} (h : G 0 ts t) : G 3 (wrap true ts) t := by simpa [wrap] using G.paren h

theorem left_ok (o : Arith) (l l' : Tree) (g : G (lvlOf l) (renderTok l) l') :
    G (lvl o) (wrap (leftNeedsParens o (topOp l)) (renderTok l)) l' := by
  by_cases hp : leftNeedsParens o (topOp l) = true
  · rw [hp]; exact G.to (wrap_G (G.to g (Nat.zero_le _) (lvlOf_le l))) (by have := lvl_le o; omega) (Nat.le_refl _)
  · have hp' : leftNeedsParens o (topOp l) = false := by simpa using hp
    rw [hp']; simp only [wrap]
    refine G.to g ?_ (lvlOf_le l)
    cases l with
    | leaf a => simp [lvlOf]; have := lvl_le o; omega
    | neg t => simp [lvlOf]; have := lvl_le o; omega
    | bin lo a b =>
      simp [lvlOf, topOp, leftNeedsParens] at hp' ⊢
      cases o <;> cases lo <;> simp [lvl, Arith.isShift, Arith.isAdd] at hp' ⊢

/-- **C02 (arithmetic core), full strength.**  For every tree the rendered tokens derive, at the
tree's own level, a tree with the same value in every admissible algebra and environment. -/
theorem render_sound {α : Type} (A : Alg α) (env : Nat → α) :
    ∀ t, ∃ t', G (lvlOf t) (renderTok t) t' ∧ eval A env t' = eval A env t := by
  intro t
  induction t with
  | leaf a => exact ⟨_, G.atom a, rfl⟩
  | neg t ih =>
    obtain ⟨t', g, e⟩ := ih
    by_cases hw : (isOp (topOp t) || startsMinusTok (renderTok t)) = true
    · refine ⟨.neg t', ?_, by simp [eval, e]⟩
      simp only [renderTok, hw, lvlOf]
      exact G.neg (wrap_G (G.to g (Nat.zero_le _) (lvlOf_le t)))
    · refine ⟨.neg t', ?_, by simp [eval, e]⟩
      have hw' : (isOp (topOp t) || startsMinusTok (renderTok t)) = false := by simpa using hw
      have h3 : lvlOf t = 3 := by
        cases t <;> simp [topOp, lvlOf, isOp] at hw' ⊢
      simp only [renderTok, hw', wrap, lvlOf]
      rw [h3] at g
      exact G.neg g
  | bin o l r ihl ihr =>
    obtain ⟨l', gl, el⟩ := ihl
    obtain ⟨r', gr, er⟩ := ihr
    have gL := left_ok o l l' gl
    simp only [renderTok, lvlOf]
    by_cases hp : (rightNeedsParens o (topOp r) || (o = .sub && startsMinusTok (renderTok r))) = true
    · rw [hp]
      have gR : G (lvl o + 1) (wrap true (renderTok r)) r' :=
        G.to (wrap_G (G.to gr (Nat.zero_le _) (lvlOf_le r))) (by have := lvl_le o; omega) (Nat.le_refl _)
      exact ⟨.bin o l' r', G.bin rfl gL gR, by simp [eval, el, er]⟩
    · have hp' : (rightNeedsParens o (topOp r) || (o = .sub && startsMinusTok (renderTok r))) = false := by
        simpa using hp
      rw [hp']; simp only [wrap]
      have hrp : rightNeedsParens o (topOp r) = false := by
        cases h : rightNeedsParens o (topOp r) <;> simp [h] at hp' ⊢
      by_cases hdirect : lvl o + 1 ≤ lvlOf r
      · exact ⟨.bin o l' r', G.bin rfl gL (G.to gr hdirect (lvlOf_le r)), by simp [eval, el, er]⟩
      · -- same-level right operand left un-parenthesised: only `+` over +/- and `*` over * and /
        cases r with
        | leaf a => simp [lvlOf] at hdirect; have := lvl_le o; omega
        | neg t => simp [lvlOf] at hdirect; have := lvl_le o; omega
        | bin ro a b =>
          simp only [lvlOf, topOp, rightNeedsParens] at hdirect hrp gr
          cases o <;> cases ro <;> simp [lvl, Arith.isShift, Arith.isAdd] at hdirect hrp gr
          all_goals first
            | (obtain ⟨t', g', e'⟩ := absorb_add A env gr rfl _ l' gL
               exact ⟨t', g', by simp [eval, Alg.ap, e', el, er]⟩)
            | (obtain ⟨t', g', e'⟩ := absorb_mul A env gr rfl _ l' gL
               exact ⟨t', g', by simp [eval, Alg.ap, e', el, er]⟩)

/-- non-vacuity: a concrete tree exercising every rule (shift under `*`, `-` under unary minus, `a - -b`) -/
example : renderTok (.bin .mul (.bin .lshift (.leaf 0) (.leaf 1)) (.neg (.bin .sub (.leaf 2) (.neg (.leaf 3))))) =
    [.lp, .atom 0, .op .lshift, .atom 1, .rp, .op .mul, .op .sub, .lp, .atom 2, .op .sub, .lp, .op .sub, .atom 3, .rp, .rp] := by
  decide

/-- the unrepaired policy (no parentheses for shifts / unary minus) is unsound: `-(a+b)` rendered `-a+b`
    derives only `(-a)+b`, which differs from `-(a+b)` over the integers -/
def renderOld : Tree → List Tok
  | .leaf a => [.atom a]
  | .neg t => .op .sub :: renderOld t
  | .bin o l r => renderOld l ++ .op o :: renderOld r

example : renderOld (.neg (.bin .add (.leaf 0) (.leaf 1))) = renderTok (.bin .add (.neg (.leaf 0)) (.leaf 1)) := by decide

end Pypika.C02
