import Pypika.RenderTerm
/-!
# C03 — data values render as one literal that decodes back to the value

`readLit q` is the specification: the ANSI string-literal reader (a literal opened by `q` ends at
the first `q` not followed by another `q`; `qq` denotes `q`).  `decode_encode` / `lex_literal`
state that what `flatten` writes for a `str` piece is read back exactly, whatever the payload
(quotes, backslashes, comment markers, NUL …) and whatever follows, provided the following text
does not start with the quote character.
-/
namespace Pypika.C03
open Pypika

/-- read the body of a literal whose opening quote has been consumed: `(payload, rest)` -/
def readBody (q : Char) : Str → Option (Str × Str)
  | [] => none
  | [c] => if c = q then some ([], []) else none
  | c :: c2 :: cs =>
    if c = q then
      if c2 = q then (readBody q cs).map (fun (s, r) => (q :: s, r)) else some ([], c2 :: cs)
    else (readBody q (c2 :: cs)).map (fun (s, r) => (c :: s, r))

/-- read a whole literal: opening quote, body, closing quote -/
def readLit (q : Char) : Str → Option (Str × Str)
  | [] => none
  | c :: cs => if c = q then readBody q cs else none

/-- **round trip**: the doubled-quote encoding is decoded exactly, for every string -/
theorem decode_encode (q : Char) (s rest : Str) (h : rest.head? ≠ some q) :
    readBody q (esc q s ++ q :: rest) = some (s, rest) := by
  induction s with
  | nil =>
    cases rest with
    | nil => simp [esc, readBody]
    | cons r rs =>
      have : r ≠ q := by simpa using h
      simp [esc, readBody, this]
  | cons c cs ih =>
    by_cases hc : c = q
    · subst hc; simp [esc, readBody, ih]
    · have : ∃ d ds, esc q cs ++ q :: rest = d :: ds := by
        cases h2 : esc q cs ++ q :: rest with
        | nil => simp at h2
        | cons d ds => exact ⟨d, ds, rfl⟩
      obtain ⟨d, ds, hd⟩ := this
      simp only [esc, hc, if_false, List.cons_append]
      rw [hd, readBody]
      simp only [hc, if_false]
      rw [← hd, ih]; rfl

/-- a literal written by `flatten` is lexed as ONE token carrying exactly the payload, and lexing
    resumes exactly after it -/
theorem lex_literal (q : Char) (s rest : Str) (h : rest.head? ≠ some q) :
    readLit q (quoteWith (some q) (escWith (some q) s) ++ rest) = some (s, rest) := by
  simp only [quoteWith, escWith, readLit, List.cons_append, if_true, List.append_assoc, List.singleton_append]
  exact decode_encode q s rest h

/-- the same at the level of pieces: the text of a `str` piece reads back as its payload -/
theorem str_piece_roundtrip (coll : Bool) (q : Char) (p rest : Str) (h : rest.head? ≠ some q) :
    readLit q ((Piece.str coll (some q) p).text ++ rest) = some (p, rest) := by
  simpa [Piece.text] using lex_literal q p rest h

/-- every Python value is rendered as exactly one piece; a string becomes one `str` piece that
    carries the supplied string as payload and the context's literal quote -/
theorem val_one_piece (c : Ctx) (v : Val) : (v.doc c).length = 1 ∧
    (∀ s, v = .str s → v.doc c = [.str c.param c.sq s]) := by
  cases v <;> simp [Val.doc]

/-- non-vacuity / the hostile cases: the classic injection string -/
example : readLit '\'' ((Piece.str false (some '\'') "' OR 1=1 --".toList).text ++ " AND".toList) =
    some ("' OR 1=1 --".toList, " AND".toList) := by decide

/-- the backslash dialects (MySQL, ClickHouse) read `\'` as an escaped quote: for them the full
    statement is false.  Witness: the one-character string `\` -/
def readBodyBackslash (q : Char) : Nat → Str → Option (Str × Str)
  | 0, _ => none
  | _, [] => none
  | n+1, c :: cs =>
    if c = '\\' then
      match cs with
      | [] => none
      | d :: ds => (readBodyBackslash q n ds).map (fun (s, r) => (d :: s, r))
    else if c = q then
      match cs with
      | d :: ds => if d = q then (readBodyBackslash q n ds).map (fun (s, r) => (q :: s, r)) else some ([], cs)
      | [] => some ([], [])
    else (readBodyBackslash q n cs).map (fun (s, r) => (c :: s, r))

theorem backslash_kf :
    readBodyBackslash '\'' 20 (esc '\'' ['\\'] ++ '\'' :: " AND x".toList) ≠ some (['\\'], " AND x".toList) := by
  decide

end Pypika.C03
