import Pypika.Syntax
import Pypika.Generated.Effects
/-!
# C15 — replace_table equals building the same object with the other table

The code implements `replace_table` class by class.  The coverage obligation — *every attribute
of a class that holds child terms (what `nodes_()` walks) is rewritten by that class's
`replace_table`* — is checked by `decide` over the table regenerated from `/repo`'s source on
every run; the leaf rule (a column's table is replaced exactly when it equals the table to
replace) is proved below.
-/
namespace Pypika.C15
open Pypika

/-- `Field.replace_table`: `new_table if self.table == current_table else self.table` -/
def replaceRef (a b : TRef) (t : Option TRef) : Option TRef :=
  match t with
  | some x => if x = a then some b else some x
  | none => none

theorem replaces_target (a b : TRef) : replaceRef a b (some a) = some b := by simp [replaceRef]
theorem others_untouched (a b x : TRef) (h : x ≠ a) : replaceRef a b (some x) = some x := by simp [replaceRef, h]
theorem none_untouched (a b : TRef) : replaceRef a b none = none := rfl
/-- after the replacement the old table does not occur any more (unless it is the new one) -/
theorem target_gone (a b : TRef) (t : Option TRef) (hab : a ≠ b) : replaceRef a b t ≠ some a := by
  cases t with
  | none => simp [replaceRef]
  | some x =>
    by_cases h : x = a
    · simp [replaceRef, h]; exact fun e => hab e.symm
    · simp [replaceRef, h]
/-- replacing commutes with occurrence lists: every occurrence is replaced, in place, others are kept -/
theorem replace_map (a b : TRef) (ts : List (Option TRef)) :
    ts.map (replaceRef a b) = ts.map (fun t => if t = some a then some b else t) := by
  apply List.map_congr_left
  intro t _
  cases t with
  | none => simp [replaceRef]
  | some x => by_cases h : x = a <;> simp [replaceRef, h]

/-- abstract base classes that are never instantiated -/
def abstractClasses : List Str := ["RangeCriterion".toList]

/-- **coverage**: for every class, each child attribute its `nodes_()` walks is rewritten by its `replace_table` -/
theorem coverage :
    Gen.replaceTable.all (fun r => abstractClasses.contains r.1 || r.2.1.all (fun a => r.2.2.contains a)) = true := by
  decide +kernel

/-- the classes with operands the property names explicitly are in the table with those operands rewritten -/
theorem named_positions :
    (Gen.replaceTable.any (fun r => r.1 = "ContainsCriterion".toList ∧ r.2.2.contains "container".toList)) = true ∧
    (Gen.replaceTable.any (fun r => r.1 = "BetweenCriterion".toList ∧ r.2.2.contains "start".toList ∧ r.2.2.contains "end".toList)) = true ∧
    (Gen.replaceTable.any (fun r => r.1 = "Negative".toList ∧ r.2.2.contains "term".toList)) = true ∧
    (Gen.replaceTable.any (fun r => r.1 = "AggregateFunction".toList ∧ r.2.2.contains "_filters".toList)) = true ∧
    (Gen.replaceTable.any (fun r => r.1 = "AnalyticFunction".toList ∧ r.2.2.contains "_partition".toList ∧ r.2.2.contains "_orderbys".toList)) = true ∧
    (Gen.replaceTable.any (fun r => r.1 = "Extract".toList ∧ r.2.2.contains "field".toList)) = true ∧
    (Gen.replaceTable.any (fun r => r.1 = "NestedCriterion".toList ∧ r.2.2.contains "nested".toList)) = true ∧
    (Gen.replaceTable.any (fun r => r.1 = "QueryBuilder".toList ∧ r.2.2.contains "_updates".toList ∧ r.2.2.contains "_joins".toList ∧
        r.2.2.contains "_with".toList)) = true := by
  decide +kernel

end Pypika.C15
