import Pypika.Replace
import Pypika.Generated.Effects
/-!
# C15 — replace_table equals building the same object with the other table

The code implements `replace_table` class by class.  The coverage obligation — *every attribute
of a class that holds child terms (what `nodes_()` walks) is rewritten by that class's
`replace_table`* — is checked by `decide` over the table regenerated from `/repo`'s source on
every run; the leaf rule (a column's table is replaced exactly when it equals the table to
replace) is proved below.
-/
namespace Pypika.C15
open Pypika

/-- `Field.replace_table`: `new_table if self.table == current_table else self.table` -/
def replaceRef (a b : TRef) (t : Option TRef) : Option TRef :=
  match t with
  | some x => if x = a then some b else some x
  | none => none

theorem replaces_target (a b : TRef) : replaceRef a b (some a) = some b := by simp [replaceRef]
theorem others_untouched (a b x : TRef) (h : x ≠ a) : replaceRef a b (some x) = some x := by simp [replaceRef, h]
theorem none_untouched (a b : TRef) : replaceRef a b none = none := rfl
/-- after the replacement the old table does not occur any more (unless it is the new one) -/
theorem target_gone (a b : TRef) (t : Option TRef) (hab : a ≠ b) : replaceRef a b t ≠ some a := by
  cases t with
  | none => simp [replaceRef]
  | some x =>
    by_cases h : x = a
    · simp [replaceRef, h]; exact fun e => hab e.symm
    · simp [replaceRef, h]
/-- replacing commutes with occurrence lists: every occurrence is replaced, in place, others are kept -/
theorem replace_map (a b : TRef) (ts : List (Option TRef)) :
    ts.map (replaceRef a b) = ts.map (fun t => if t = some a then some b else t) := by
  apply List.map_congr_left
  intro t _
  cases t with
  | none => simp [replaceRef]
  | some x => by_cases h : x = a <;> simp [replaceRef, h]

/-- abstract base classes that are never instantiated -/
def abstractClasses : List Str := ["RangeCriterion".toList]

/-- **coverage**: for every class, each child attribute its `nodes_()` walks is rewritten by its `replace_table` -/
theorem coverage :
    Gen.replaceTable.all (fun r => abstractClasses.contains r.1 || r.2.1.all (fun a => r.2.2.contains a)) = true := by
  decide +kernel

/-- the classes with operands the property names explicitly are in the table with those operands rewritten -/
theorem named_positions :
    (Gen.replaceTable.any (fun r => r.1 = "ContainsCriterion".toList ∧ r.2.2.contains "container".toList)) = true ∧
    (Gen.replaceTable.any (fun r => r.1 = "BetweenCriterion".toList ∧ r.2.2.contains "start".toList ∧ r.2.2.contains "end".toList)) = true ∧
    (Gen.replaceTable.any (fun r => r.1 = "Negative".toList ∧ r.2.2.contains "term".toList)) = true ∧
    (Gen.replaceTable.any (fun r => r.1 = "AggregateFunction".toList ∧ r.2.2.contains "_filters".toList)) = true ∧
    (Gen.replaceTable.any (fun r => r.1 = "AnalyticFunction".toList ∧ r.2.2.contains "_partition".toList ∧ r.2.2.contains "_orderbys".toList)) = true ∧
    (Gen.replaceTable.any (fun r => r.1 = "Extract".toList ∧ r.2.2.contains "field".toList)) = true ∧
    (Gen.replaceTable.any (fun r => r.1 = "NestedCriterion".toList ∧ r.2.2.contains "nested".toList)) = true ∧
    (Gen.replaceTable.any (fun r => r.1 = "QueryBuilder".toList ∧ r.2.2.contains "_updates".toList ∧ r.2.2.contains "_joins".toList ∧
        r.2.2.contains "_with".toList)) = true := by
  decide +kernel


/-! ## the whole tree: `replace_table` as implemented (`Pol.code`) against the specification (`Pol.spec`)

`mapT` (in `Pypika/Replace.lean`) rewrites table references through the entire mutual syntax — terms, functions with
FILTER / OVER, CASE, sub-queries, row sources, joins, every clause slot of a statement including the dialect extras,
set operations.  `replaceT a b` is the model of `x.replace_table(a, b)` and is what the correspondence check runs
against the real method on every generated object. -/

/-- agreement of a policy with the specification on syntax that has none of the shapes the policy skips,
    for any two reference maps that agree on the references that occur -/
theorem map_agree (p : Pol) (P : TRef → Bool) (f g : TRef → TRef) (hfg : ∀ r, P r = true → f r = g r) :
    (∀ t, chkT p P t = true → mapT p f t = mapT Pol.spec g t) ∧
    (∀ s, chkS p P s = true → mapS p f s = mapS Pol.spec g s) ∧
    (∀ l, chkOrd p P l = true → mapOrd p f l = mapOrd Pol.spec g l) ∧
    (∀ l, chkOps p P l = true → mapOps p f l = mapOps Pol.spec g l) ∧
    (∀ q, chkQ p P q = true → mapQ p f q = mapQ Pol.spec g q) ∧
    (∀ l, chkCU p P l = true → mapCU p f l = mapCU Pol.spec g l) ∧
    (∀ o, chkTO p P o = true → mapTO p f o = mapTO Pol.spec g o) ∧
    (∀ l, chkPairs p P l = true → mapPairs p f l = mapPairs Pol.spec g l) ∧
    (∀ l, chkJoins p P l = true → mapJoins p f l = mapJoins Pol.spec g l) ∧
    (∀ j, chkJoin p P j = true → mapJoin p f j = mapJoin Pol.spec g j) ∧
    (∀ l, chkTL p P l = true → mapTL p f l = mapTL Pol.spec g l) ∧
    (∀ s, chkSrc p P s = true → mapSrc p f s = mapSrc Pol.spec g s) ∧
    (∀ o, chkOS p P o = true → mapOS p f o = mapOS Pol.spec g o) ∧
    (∀ l, chkRows p P l = true → mapRows p f l = mapRows Pol.spec g l) ∧
    (∀ l, chkWiths p P l = true → mapWiths p f l = mapWiths Pol.spec g l) ∧
    (∀ s, chkWithBody p P s = true → mapWithBody p f s = mapWithBody Pol.spec g s) ∧
    (∀ l, chkSrcL p P l = true → mapSrcL p f l = mapSrcL Pol.spec g l) := by
  apply chkT.mutual_induct
    (motive_1 := fun t => chkT p P t = true → mapT p f t = mapT Pol.spec g t)
    (motive_2 := fun s => chkS p P s = true → mapS p f s = mapS Pol.spec g s)
    (motive_3 := fun l => chkOrd p P l = true → mapOrd p f l = mapOrd Pol.spec g l)
    (motive_4 := fun l => chkOps p P l = true → mapOps p f l = mapOps Pol.spec g l)
    (motive_5 := fun q => chkQ p P q = true → mapQ p f q = mapQ Pol.spec g q)
    (motive_6 := fun l => chkCU p P l = true → mapCU p f l = mapCU Pol.spec g l)
    (motive_7 := fun o => chkTO p P o = true → mapTO p f o = mapTO Pol.spec g o)
    (motive_8 := fun l => chkPairs p P l = true → mapPairs p f l = mapPairs Pol.spec g l)
    (motive_9 := fun l => chkJoins p P l = true → mapJoins p f l = mapJoins Pol.spec g l)
    (motive_10 := fun j => chkJoin p P j = true → mapJoin p f j = mapJoin Pol.spec g j)
    (motive_11 := fun l => chkTL p P l = true → mapTL p f l = mapTL Pol.spec g l)
    (motive_12 := fun s => chkSrc p P s = true → mapSrc p f s = mapSrc Pol.spec g s)
    (motive_13 := fun o => chkOS p P o = true → mapOS p f o = mapOS Pol.spec g o)
    (motive_14 := fun l => chkRows p P l = true → mapRows p f l = mapRows Pol.spec g l)
    (motive_15 := fun l => chkWiths p P l = true → mapWiths p f l = mapWiths Pol.spec g l)
    (motive_16 := fun s => chkWithBody p P s = true → mapWithBody p f s = mapWithBody Pol.spec g s)
    (motive_17 := fun l => chkSrcL p P l = true → mapSrcL p f l = mapSrcL Pol.spec g l)
  all_goals (intros; simp_all [mapT, mapTL, mapTO, mapPairs, mapOrd, mapCU, mapRows, mapSrc, mapOS, mapSrcL, mapWithBody,
    mapWiths, mapJoin, mapJoins, mapQ, mapS, mapOps, chkT, chkTL, chkTO, chkPairs, chkOrd, chkCU, chkRows, chkSrc, chkOS,
    chkSrcL, chkWithBody, chkWiths, chkJoin, chkJoins, chkQ, chkS, chkOps, chkRef, Pol.spec])
  all_goals (rename_i tbl h; cases tbl <;> simp_all)


/-- the specification is functorial: rewriting twice is rewriting with the composition -/
theorem map_comp (f g : TRef → TRef) :
    (∀ t, mapT Pol.spec f (mapT Pol.spec g t) = mapT Pol.spec (f ∘ g) t) ∧
    (∀ s, mapS Pol.spec f (mapS Pol.spec g s) = mapS Pol.spec (f ∘ g) s) ∧
    (∀ l, mapOrd Pol.spec f (mapOrd Pol.spec g l) = mapOrd Pol.spec (f ∘ g) l) ∧
    (∀ l, mapOps Pol.spec f (mapOps Pol.spec g l) = mapOps Pol.spec (f ∘ g) l) ∧
    (∀ q, mapQ Pol.spec f (mapQ Pol.spec g q) = mapQ Pol.spec (f ∘ g) q) ∧
    (∀ l, mapCU Pol.spec f (mapCU Pol.spec g l) = mapCU Pol.spec (f ∘ g) l) ∧
    (∀ o, mapTO Pol.spec f (mapTO Pol.spec g o) = mapTO Pol.spec (f ∘ g) o) ∧
    (∀ l, mapPairs Pol.spec f (mapPairs Pol.spec g l) = mapPairs Pol.spec (f ∘ g) l) ∧
    (∀ l, mapJoins Pol.spec f (mapJoins Pol.spec g l) = mapJoins Pol.spec (f ∘ g) l) ∧
    (∀ j, mapJoin Pol.spec f (mapJoin Pol.spec g j) = mapJoin Pol.spec (f ∘ g) j) ∧
    (∀ l, mapTL Pol.spec f (mapTL Pol.spec g l) = mapTL Pol.spec (f ∘ g) l) ∧
    (∀ s, mapSrc Pol.spec f (mapSrc Pol.spec g s) = mapSrc Pol.spec (f ∘ g) s) ∧
    (∀ o, mapOS Pol.spec f (mapOS Pol.spec g o) = mapOS Pol.spec (f ∘ g) o) ∧
    (∀ l, mapRows Pol.spec f (mapRows Pol.spec g l) = mapRows Pol.spec (f ∘ g) l) ∧
    (∀ l, mapWiths Pol.spec f (mapWiths Pol.spec g l) = mapWiths Pol.spec (f ∘ g) l) ∧
    (∀ s, mapWithBody Pol.spec f (mapWithBody Pol.spec g s) = mapWithBody Pol.spec (f ∘ g) s) ∧
    (∀ l, mapSrcL Pol.spec f (mapSrcL Pol.spec g l) = mapSrcL Pol.spec (f ∘ g) l) := by
  apply chkT.mutual_induct
    (motive_1 := fun t => mapT Pol.spec f (mapT Pol.spec g t) = mapT Pol.spec (f ∘ g) t)
    (motive_2 := fun s => mapS Pol.spec f (mapS Pol.spec g s) = mapS Pol.spec (f ∘ g) s)
    (motive_3 := fun l => mapOrd Pol.spec f (mapOrd Pol.spec g l) = mapOrd Pol.spec (f ∘ g) l)
    (motive_4 := fun l => mapOps Pol.spec f (mapOps Pol.spec g l) = mapOps Pol.spec (f ∘ g) l)
    (motive_5 := fun q => mapQ Pol.spec f (mapQ Pol.spec g q) = mapQ Pol.spec (f ∘ g) q)
    (motive_6 := fun l => mapCU Pol.spec f (mapCU Pol.spec g l) = mapCU Pol.spec (f ∘ g) l)
    (motive_7 := fun o => mapTO Pol.spec f (mapTO Pol.spec g o) = mapTO Pol.spec (f ∘ g) o)
    (motive_8 := fun l => mapPairs Pol.spec f (mapPairs Pol.spec g l) = mapPairs Pol.spec (f ∘ g) l)
    (motive_9 := fun l => mapJoins Pol.spec f (mapJoins Pol.spec g l) = mapJoins Pol.spec (f ∘ g) l)
    (motive_10 := fun j => mapJoin Pol.spec f (mapJoin Pol.spec g j) = mapJoin Pol.spec (f ∘ g) j)
    (motive_11 := fun l => mapTL Pol.spec f (mapTL Pol.spec g l) = mapTL Pol.spec (f ∘ g) l)
    (motive_12 := fun s => mapSrc Pol.spec f (mapSrc Pol.spec g s) = mapSrc Pol.spec (f ∘ g) s)
    (motive_13 := fun o => mapOS Pol.spec f (mapOS Pol.spec g o) = mapOS Pol.spec (f ∘ g) o)
    (motive_14 := fun l => mapRows Pol.spec f (mapRows Pol.spec g l) = mapRows Pol.spec (f ∘ g) l)
    (motive_15 := fun l => mapWiths Pol.spec f (mapWiths Pol.spec g l) = mapWiths Pol.spec (f ∘ g) l)
    (motive_16 := fun s => mapWithBody Pol.spec f (mapWithBody Pol.spec g s) = mapWithBody Pol.spec (f ∘ g) s)
    (motive_17 := fun l => mapSrcL Pol.spec f (mapSrcL Pol.spec g l) = mapSrcL Pol.spec (f ∘ g) l)

  all_goals (intros; try simp_all [mapT, mapTL, mapTO, mapPairs, mapOrd, mapCU, mapRows, mapSrc, mapOS, mapSrcL, mapWithBody,
    mapWiths, mapJoin, mapJoins, mapQ, mapS, mapOps, Pol.spec])
  all_goals (rename_i tbl; cases tbl <;> simp_all)


/-- **C15, whole tree (partial: listed gap shapes excluded).**  On a term of any depth that contains no set operation,
    no sub-query used as FROM / JOIN / USING item, no table as WITH body and no temporal table source,
    `replace_table` as implemented is exactly the substitution of `b` for `a` at every occurrence. -/
theorem replace_eq_subst_partial (a b : TRef) (t : Term) (h : chkT Pol.code (fun _ => true) t = true) :
    replaceT a b t = substT a b t :=
  (map_agree Pol.code (fun _ => true) _ _ (fun _ _ => rfl)).1 t h

theorem replaceQ_eq_subst_partial (a b : TRef) (q : Query) (h : chkQ Pol.code (fun _ => true) q = true) :
    replaceQ a b q = substQ a b q :=
  (map_agree Pol.code (fun _ => true) _ _ (fun _ _ => rfl)).2.2.2.2.1 q h

/-- putting table `x` into the hole `h` of a builder context -/
def inst (h x : TRef) (t : TRef) : TRef := if t = h then x else t

/-- **rebuild equivalence (specification level).**  For every context `sk` with a hole `h` in which `a` does not occur
    otherwise: substituting `b` for `a` in the object built with `a` gives the object built with `b`. -/
theorem subst_build (a b h : TRef) (sk : Term) (hfree : chkT Pol.spec (fun r => decide (r ≠ a)) sk = true) :
    substT a b (mapT Pol.spec (inst h a) sk) = mapT Pol.spec (inst h b) sk := by
  unfold substT
  rw [(map_comp (swapRef a b) (inst h a)).1 sk]
  refine (map_agree Pol.spec (fun r => decide (r ≠ a)) _ _ ?_).1 sk hfree
  intro r hr
  have hne : r ≠ a := by simpa using hr
  by_cases hh : r = h <;> simp [inst, swapRef, hh, hne]

/-- **C15 for the implementation's `replace_table` (partial).**  If, in addition, the built object contains none of the
    listed gap shapes, `build(a).replace_table(a, b) = build(b)` — for every builder context, of any depth. -/
theorem replace_build_partial (a b h : TRef) (sk : Term) (hfree : chkT Pol.spec (fun r => decide (r ≠ a)) sk = true)
    (hgap : chkT Pol.code (fun _ => true) (mapT Pol.spec (inst h a) sk) = true) :
    replaceT a b (mapT Pol.spec (inst h a) sk) = mapT Pol.spec (inst h b) sk := by
  rw [replace_eq_subst_partial a b _ hgap]; exact subst_build a b h sk hfree

/-- references other than `a` are untouched, at every depth: if `a` does not occur, nothing changes
    (stated against the identity rewriting) -/
theorem other_tables_untouched (a b : TRef) (t : Term) (hfree : chkT Pol.spec (fun r => decide (r ≠ a)) t = true) :
    substT a b t = mapT Pol.spec id t := by
  refine (map_agree Pol.spec (fun r => decide (r ≠ a)) _ _ ?_).1 t hfree
  intro r hr
  have hne : r ≠ a := by simpa using hr
  simp [swapRef, hne]

/-! non-vacuity and the listed gaps -/
def tA : TRef := { name := some "ta".toList }
def tB : TRef := { name := some "tb".toList }
def tH : TRef := { name := some "hole".toList }
/-- `SUM(h.x) FILTER(WHERE h.y > 1) + CASE WHEN h.z IN (SELECT c.k FROM c WHERE c.k = h.z) THEN 1 END` -/
def skeleton : Term :=
  .arith .add
    (.func "SUM".toList none [.field "x".toList none (some tH)] false none none
      (some (.basic ">".toList (.field "y".toList none (some tH)) (.val (.num "1".toList) none) none)) false [] [] none false none)
    (.case [(.isin (.field "z".toList none (some tH))
              (.sub (.mk {} [.table { name := some "c".toList } false none] [] [.field "k".toList none (some { name := some "c".toList })]
                 none none [] [] (some (.basic "=".toList (.field "k".toList none (some { name := some "c".toList })) (.field "z".toList none (some tH)) none))
                 none none [] [] [] [] [] [] [] [] [] none none [] []))
              false none, .val (.num "1".toList) none)] none none) none

example : chkT Pol.spec (fun r => decide (r ≠ tA)) skeleton = true := by decide
example : chkT Pol.code (fun _ => true) (mapT Pol.spec (inst tH tA) skeleton) = true := by decide

/-- known finding (set operation): the implemented `replace_table` leaves a set operation as it is -/
theorem kf_setop (s : SetOp) (a b : TRef) : replaceT a b (.setop s) = .setop s := by
  simp [replaceT, mapT, Pol.code]

/-- known finding (sub-query as FROM item): the item is kept, the specification descends into it -/
theorem kf_subquery_source (fl : QFlags) (q : Query) (sel : List Term) (a b : TRef) :
    replaceQ a b (.mk fl [.query q] [] sel none none [] [] none none none [] [] [] [] [] [] [] [] [] none none [] []) =
      .mk fl [.query q] [] (mapTL Pol.code (swapRef a b) sel) none none [] [] none none none [] [] [] [] [] [] [] [] [] none none [] [] := by
  simp [replaceQ, mapQ, mapSrcL, mapSrc, mapWiths, mapOS, mapTL, mapRows, mapTO, mapOrd, mapJoins, mapPairs, mapCU, Pol.code]

end Pypika.C15
