import Pypika.Build
/-!
# C08 — clause placement does not depend on the order of builder calls

The builder as a state machine over its clause slots.  Payloads are abstract identifiers (which
term / table / criterion a call carries is irrelevant to commutation).  `where()` / `prewhere()`
compute the `_foreign_table` flag at call time from the sources known so far — the one place
where state depends on call order; `Equiv` is equality of everything the renderer reads, the flag
being read only through the namespace decision.

`interleavings_agree`: any two call sequences with the same per-kind subsequences (i.e. any two
interleavings that keep the relative order of calls of one kind) end in equivalent states.
-/
namespace Pypika.C08

/-- everything `get_sql` reads: all slots, the flag only through the namespace decision -/
def Equiv (a b : BS) : Prop := { a with foreign := false } = { b with foreign := false } ∧ wantsNs a = wantsNs b

theorem Equiv.refl (a : BS) : Equiv a a := ⟨rfl, rfl⟩
theorem Equiv.symm {a b : BS} (h : Equiv a b) : Equiv b a := ⟨h.1.symm, h.2.symm⟩
theorem Equiv.trans {a b c : BS} (h1 : Equiv a b) (h2 : Equiv b c) : Equiv a c := ⟨h1.1.trans h2.1, h1.2.trans h2.2⟩

/-- the target is fixed: at least one FROM item or an UPDATE target exists (hypothesis of the property) -/
def Fixed (s : BS) : Prop := s.froms ≠ [] ∨ s.updateTable.isSome = true

/-- the part of the namespace decision that does not involve the flag; it only ever becomes true -/
def nsBase (s : BS) : Bool :=
  !s.joins.isEmpty || s.froms.length > 1 || (s.updateTable.isSome && !s.froms.isEmpty)

theorem wantsNs_eq (s : BS) : wantsNs s = (nsBase s || s.foreign) := by
  simp [wantsNs, nsBase, Bool.or_assoc, Bool.or_comm, Bool.or_left_comm]

theorem nsBase_mono (s : BS) (c : Call) (h : nsBase s = true) : nsBase (step s c) = true := by
  cases c <;> simp only [step, nsBase] at * <;> try exact h
  · -- from_: the list of FROM items only grows
    rename_i t
    simp only [Bool.or_eq_true, Bool.and_eq_true, Bool.not_eq_true', decide_eq_true_eq] at h ⊢
    rcases h with (h | h) | h
    · exact Or.inl (Or.inl h)
    · exact Or.inl (Or.inr (by simp [List.length_append]; omega))
    · exact Or.inr ⟨h.1, by simp⟩
  · -- join: joins become non-empty
    simp

/-- equivalent states differ at most in the flag, and then only when namespaces are on anyway -/
theorem equiv_cases {a b : BS} (h : Equiv a b) : a = b ∨ (nsBase a = true ∧ nsBase b = true ∧ { a with foreign := false } = { b with foreign := false }) := by
  obtain ⟨h1, h2⟩ := h
  have hb : nsBase a = nsBase b := by
    have := congrArg nsBase h1
    simpa [nsBase] using this
  by_cases hf : a.foreign = b.foreign
  · left
    have : a = { { a with foreign := false } with foreign := a.foreign } := by cases a; rfl
    rw [this, h1, hf]
  · right
    rw [wantsNs_eq, wantsNs_eq, hb] at h2
    cases hx : nsBase b <;> cases hfa : a.foreign <;> cases hfb : b.foreign <;> simp_all

/-- every step respects equivalence -/
theorem step_congr {a b : BS} (h : Equiv a b) (c : Call) : Equiv (step a c) (step b c) := by
  rcases equiv_cases h with e | ⟨ha, hb, he⟩
  · subst e; exact Equiv.refl _
  · have hv : ∀ tabs, valid a tabs = valid b tabs := by
      intro tabs
      have h1 := congrArg BS.froms he; have h2 := congrArg BS.joins he; have h3 := congrArg BS.updateTable he
      simp only at h1 h2 h3
      simp [valid, h1, h2, h3]
    refine ⟨?_, ?_⟩
    · cases a; cases b
      simp only [BS.mk.injEq] at he
      obtain ⟨e1, e2, e3, e4, e5, e6, e7, e8, e9, e10, e11, e12, e13, e14, e15, e16, e17, e18, e19, _⟩ := he
      subst e1 e2 e3 e4 e5 e6 e7 e8 e9 e10 e11 e12 e13 e14 e15 e16 e17 e18 e19
      cases c <;> simp [step]
    · rw [wantsNs_eq, wantsNs_eq, nsBase_mono a c ha, nsBase_mono b c hb]; simp

theorem run_congr {a b : BS} (h : Equiv a b) (l : List Call) : Equiv (run a l) (run b l) := by
  induction l generalizing a b with
  | nil => exact h
  | cons c l ih => exact ih (step_congr h c)

theorem fixed_step (s : BS) (c : Call) (h : Fixed s) : Fixed (step s c) := by
  cases c <;> simp_all [Fixed, step]

theorem Equiv.of_eq {a b : BS} (h : a = b) : Equiv a b := h ▸ Equiv.refl a

theorem nsBase_from (s : BS) (hf : Fixed s) (t : Nat) : nsBase (step s (.from_ t)) = true := by
  simp only [step, nsBase, Bool.or_eq_true, Bool.and_eq_true, Bool.not_eq_true', decide_eq_true_eq]
  rcases hf with h | h
  · have : s.froms.length ≥ 1 := by
      cases hfr : s.froms with
      | nil => exact absurd hfr h
      | cons f fs => simp
    exact Or.inl (Or.inr (by simp [List.length_append]; omega))
  · exact Or.inr ⟨h, by simp⟩

theorem nsBase_join (s : BS) (j t : Nat) : nsBase (step s (.join j t)) = true := by simp [step, nsBase]

theorem wantsNs_of_base {s : BS} (h : nsBase s = true) : wantsNs s = true := by rw [wantsNs_eq, h]; rfl

/-- **calls of different kinds commute** (once the target is fixed) -/
theorem swap (s : BS) (hf : Fixed s) (x y : Call) (hk : x.kind ≠ y.kind) :
    Equiv (step (step s x) y) (step (step s y) x) := by
  cases x <;> cases y <;> simp [Call.kind] at hk <;>
    first
    | exact Equiv.refl _
    | (apply Equiv.of_eq; simp [step, valid, Bool.or_assoc, Bool.or_comm, Bool.or_left_comm]; done)
    | (refine ⟨by simp [step], ?_⟩
       first
       | rw [wantsNs_of_base (nsBase_mono _ _ (nsBase_from s hf _)), wantsNs_of_base (nsBase_from _ (fixed_step s _ hf) _)]
       | rw [wantsNs_of_base (nsBase_mono _ _ (nsBase_join s _ _)), wantsNs_of_base (nsBase_join _ _ _)]
       | rw [wantsNs_of_base (nsBase_from _ (fixed_step s _ hf) _), wantsNs_of_base (nsBase_mono _ _ (nsBase_from s hf _))]
       | rw [wantsNs_of_base (nsBase_join _ _ _), wantsNs_of_base (nsBase_mono _ _ (nsBase_join s _ _))])

theorem fixed_run (s : BS) (l : List Call) (h : Fixed s) : Fixed (run s l) := by
  induction l generalizing s with
  | nil => exact h
  | cons c l ih => exact ih _ (fixed_step s c h)

/-- a call can be moved in front of any block of calls of other kinds -/
theorem bubble (s : BS) (hf : Fixed s) (a : Call) (pre post : List Call) (h : ∀ x ∈ pre, x.kind ≠ a.kind) :
    Equiv (run s (pre ++ a :: post)) (run s (a :: (pre ++ post))) := by
  induction pre generalizing s with
  | nil => exact Equiv.refl _
  | cons p ps ih =>
    have hp : p.kind ≠ a.kind := h p (by simp)
    -- run s (p :: ps ++ a :: post) = run (step s p) (ps ++ a :: post) ≈ run (step s p) (a :: ps ++ post)
    have h1 := ih (step s p) (fixed_step s p hf) (fun x hx => h x (by simp [hx]))
    -- = run (step (step s p) a) (ps ++ post) ≈ run (step (step s a) p) (ps ++ post)
    have h2 : Equiv (run (step (step s p) a) (ps ++ post)) (run (step (step s a) p) (ps ++ post)) :=
      run_congr (swap s hf p a hp) _
    exact Equiv.trans h1 h2

def ofKind (k : Kind) (l : List Call) : List Call := l.filter (fun c => decide (c.kind = k))

theorem split_first (k : Kind) (a : Call) (r l : List Call) (h : ofKind k l = a :: r) :
    ∃ pre post, l = pre ++ a :: post ∧ (∀ x ∈ pre, x.kind ≠ k) ∧ ofKind k post = r := by
  induction l with
  | nil => simp [ofKind] at h
  | cons c l ih =>
    by_cases hc : c.kind = k
    · simp only [ofKind, List.filter_cons, hc, decide_true, if_true, List.cons.injEq] at h
      exact ⟨[], l, by simp [h.1], by simp, h.2⟩
    · have h' : ofKind k l = a :: r := by simpa [ofKind, List.filter_cons, hc] using h
      obtain ⟨pre, post, e, hp, hr⟩ := ih h'
      exact ⟨c :: pre, post, by simp [e], by
        intro x hx
        rcases List.mem_cons.mp hx with e' | e'
        · subst e'; exact hc
        · exact hp x e', hr⟩

theorem ofKind_none (k : Kind) (l : List Call) (h : ∀ x ∈ l, x.kind ≠ k) : ofKind k l = [] := by
  simp only [ofKind, List.filter_eq_nil_iff, decide_eq_true_eq]
  exact h

/-- **C08**: two call sequences with the same per-kind subsequences — i.e. any two interleavings
    that keep the relative order of calls of the same kind — end in states the renderer cannot tell apart -/
theorem interleavings_agree (l1 l2 : List Call) (s : BS) (hf : Fixed s)
    (h : ∀ k, ofKind k l1 = ofKind k l2) : Equiv (run s l1) (run s l2) := by
  induction l1 generalizing s l2 with
  | nil =>
    have : l2 = [] := by
      cases l2 with
      | nil => rfl
      | cons c cs =>
        have := h c.kind
        simp [ofKind] at this
    subst this; exact Equiv.refl _
  | cons a t ih =>
    have ha : ofKind a.kind l2 = a :: ofKind a.kind t := by
      rw [← h a.kind]; simp [ofKind]
    obtain ⟨pre, post, e, hp, hr⟩ := split_first a.kind a _ l2 ha
    subst e
    have hb := bubble s hf a pre post hp
    have hrest : ∀ k, ofKind k t = ofKind k (pre ++ post) := by
      intro k
      have hk := h k
      by_cases hka : a.kind = k
      · subst hka
        simp only [ofKind, List.filter_append] at hr ⊢
        have hpre : pre.filter (fun c => decide (c.kind = a.kind)) = [] := ofKind_none _ _ hp
        rw [hpre, List.nil_append]; exact hr.symm
      · have e1 : ofKind k (a :: t) = ofKind k t := by simp [ofKind, List.filter_cons, hka]
        have e2 : ofKind k (pre ++ a :: post) = ofKind k (pre ++ post) := by
          simp [ofKind, List.filter_append, List.filter_cons, hka]
        rw [← e1, hk, e2]
    have h3 := ih (pre ++ post) (step s a) (fixed_step s a hf) hrest
    exact Equiv.trans h3 (Equiv.symm hb)

/-- repeated calls of one kind accumulate in call order -/
theorem accumulate (s : BS) (cs : List Nat) :
    (run s (cs.map (fun c => Call.having c))).havings = s.havings ++ cs := by
  induction cs generalizing s with
  | nil => simp [run]
  | cons c cs ih => simp [run, List.foldl_cons, step] at ih ⊢; rw [ih]; simp

/-- non-vacuity: select / where / join in two different orders -/
example : Equiv (run { froms := [0] } [.where_ 7 [1], .join 3 1, .select 5, .limit 2])
                (run { froms := [0] } [.limit 2, .select 5, .join 3 1, .where_ 7 [1]]) :=
  interleavings_agree _ _ _ (Or.inl (by simp)) (by intro k; cases k <;> rfl)

end Pypika.C08
