import Pypika.Props.C01
/-!
# C09 — rendering is a pure, repeatable, process-independent function

In the model `render : Ctx → Term → Doc` is a function of its two arguments only — kwargs are
passed by value (`**kwargs` builds a fresh dict for every callee), so renderings with different
options cannot interact, and an identically constructed object is the same value.  What has to be
established about the *code* is that its observation methods do not write object state and never
iterate a hash-ordered container on the way to the output: both are `decide`d over the effect
table regenerated from `/repo`'s source on every run.
-/
namespace Pypika.C09
open Pypika Pypika.Gen

/-- no observation method (get_sql, _*_sql, __str__, __hash__, __eq__, fields_, tables_, nodes_, find_,
    is_aggregate, …) of any class assigns an attribute of `self`, mutates a container held by `self`,
    or writes to an argument -/
theorem observers_pure : observerEffects.all (fun r => r.2.2.1.isEmpty) = true := by decide +kernel

/-- no observation method iterates a set-typed attribute: the text cannot depend on PYTHONHASHSEED -/
theorem set_free : observerEffects.all (fun r => r.2.2.2.isEmpty) = true := by decide +kernel

/-- the table is not vacuous: it lists the renderers of the builder and term classes -/
theorem observers_listed :
    (observerEffects.any (fun r => r.1 = "QueryBuilder".toList ∧ r.2.1 = "get_sql".toList)) = true ∧
    (observerEffects.any (fun r => r.1 = "ArithmeticExpression".toList ∧ r.2.1 = "get_sql".toList)) = true ∧
    (observerEffects.any (fun r => r.1 = "MySQLQueryBuilder".toList ∧ r.2.1 = "_for_update_sql".toList)) = true ∧
    observerEffects.length ≥ 300 := by decide +kernel

/-- an observation is a method call without `copy.copy` whose effect list is empty (`observers_pure`) -/
def observe (h : Heap.Heap) (recv : Heap.Obj) : Heap.Heap := C01.applyEffs h recv []

/-- any number of observations, on any receivers, in any order, leave the heap exactly as it is — so every later
    rendering reads the same state and, `render` being a function of that state and of the by-value context, gives
    the same text -/
theorem observations_frame (h : Heap.Heap) (recvs : List Heap.Obj) : recvs.foldl observe h = h := by
  induction recvs with
  | nil => rfl
  | cons r rs ih => simpa [List.foldl, observe, C01.applyEffs] using ih

/-- set-typed attributes that remain are used for membership tests only (listed for the record) -/
def setAttrs : List (Str × List Str) := classTable.filterMap (fun r => if r.2.2.1.isEmpty then none else some (r.1, r.2.2.1))

end Pypika.C09
