import Std.Data.String.ToNat
import Pypika.Param
/-!
# C06 — parameterised rendering is equivalent to inline rendering

`render` produces ONE document for both renderings: a value that a collector given at the top of
the statement would take out is a piece with `coll = true` (the `parameter` kwarg is threaded and
dropped exactly like every other kwarg).  `flatten` writes such a piece as its literal,
`flattenP` writes the placeholder and collects the payload.  All statements below are about
arbitrary documents, hence about every statement `render` can produce.
-/
namespace Pypika.C06
open Pypika

def isColl : Piece → Bool
  | .str true _ _ => true
  | .num true _ => true
  | _ => false

/-- the payload a collector receives for a piece -/
def payload : Piece → Option PVal
  | .str true _ p => some (.str p)
  | .num true x => some (.num x)
  | _ => none

/-- collected values, in document order -/
def collected : Doc → List PVal
  | [] => []
  | p :: ps => (match payload p with | some v => [v] | none => []) ++ collected ps

/-- the text with the k-th collectable piece written as `ph k` -/
def withHoles (ph : Nat → Str) : Nat → Doc → Str
  | _, [] => []
  | n, p :: ps => if isColl p then ph n ++ withHoles ph (n + 1) ps else p.text ++ withHoles ph n ps

/-- **n-th placeholder ↔ n-th value**: the parameterised text carries, at the k-th collectable
    position, the placeholder numbered from the values collected so far, and the collector holds
    exactly the payloads in that order -/
theorem flattenP_spec (st : ParamStyle) (n : Nat) (d : Doc) :
    flattenPAux st n d = (withHoles (placeholder st) n d, collected d) := by
  induction d generalizing n with
  | nil => rfl
  | cons p ps ih =>
    cases p with
    | str c q s => cases c <;> simp [flattenPAux, withHoles, isColl, collected, payload, ih]
    | num c x => cases c <;> simp [flattenPAux, withHoles, isColl, collected, payload, ih]
    | kw s => simp [flattenPAux, withHoles, isColl, collected, payload, ih]
    | ident q s => simp [flattenPAux, withHoles, isColl, collected, payload, ih]
    | aliasRef q s => simp [flattenPAux, withHoles, isColl, collected, payload, ih]
    | aliasDef q a s => simp [flattenPAux, withHoles, isColl, collected, payload, ih]
    | raw s => simp [flattenPAux, withHoles, isColl, collected, payload, ih]
    | err s => simp [flattenPAux, withHoles, isColl, collected, payload, ih]

/-- the counts agree -/
theorem count_agree (st : ParamStyle) (d : Doc) :
    (flattenP st d).2.length = (d.filter isColl).length := by
  unfold flattenP; rw [flattenP_spec]
  induction d with
  | nil => rfl
  | cons p ps ih =>
    cases p with
    | str c q s => cases c <;> simp [collected, payload, isColl, List.filter] at * <;> omega
    | num c x => cases c <;> simp [collected, payload, isColl, List.filter] at * <;> omega
    | kw s => simpa [collected, payload, isColl, List.filter] using ih
    | ident q s => simpa [collected, payload, isColl, List.filter] using ih
    | aliasRef q s => simpa [collected, payload, isColl, List.filter] using ih
    | aliasDef q a s => simpa [collected, payload, isColl, List.filter] using ih
    | raw s => simpa [collected, payload, isColl, List.filter] using ih
    | err s => simpa [collected, payload, isColl, List.filter] using ih

/-- the literal of a collected value at the place of a given piece -/
def literalAt (p : Piece) (v : PVal) : Str :=
  match p, v with
  | .str _ q _, .str s => quoteWith q (escWith q s)
  | _, .num x => x
  | _, .str s => s

/-- substitute the k-th collected value's literal for the k-th placeholder -/
def substitute : Doc → List PVal → Str
  | [], _ => []
  | p :: ps, vs =>
    if isColl p then
      match vs with
      | v :: rest => literalAt p v ++ substitute ps rest
      | [] => substitute ps []
    else p.text ++ substitute ps vs

/-- **substituting the collected values back reproduces the inline rendering** -/
theorem fill_inline (st : ParamStyle) (d : Doc) : substitute d (flattenP st d).2 = flatten d := by
  unfold flattenP; rw [flattenP_spec]
  induction d with
  | nil => rfl
  | cons p ps ih =>
    cases p with
    | str c q s => cases c <;> simp [substitute, isColl, collected, payload, literalAt, Piece.text, ih]
    | num c x => cases c <;> simp [substitute, isColl, collected, payload, literalAt, Piece.text, ih]
    | kw s => simp [substitute, isColl, collected, payload, ih]
    | ident q s => simp [substitute, isColl, collected, payload, ih]
    | aliasRef q s => simp [substitute, isColl, collected, payload, ih]
    | aliasDef q a s => simp [substitute, isColl, collected, payload, ih]
    | raw s => simp [substitute, isColl, collected, payload, ih]
    | err s => simp [substitute, isColl, collected, payload, ih]

/-- no collected value also appears inline: a collectable piece contributes only its placeholder -/
theorem inline_iff_not_collected (ph : Nat → Str) (n : Nat) (p : Piece) (ps : Doc) :
    withHoles ph n (p :: ps) = (if isColl p then ph n else p.text) ++ withHoles ph (if isColl p then n + 1 else n) ps := by
  cases h : isColl p <;> simp [withHoles, h]

/-- the inline text does not depend on which values are collectable -/
theorem flatten_uncollect (d : Doc) : flatten (uncollect d) = flatten d := by
  induction d with
  | nil => rfl
  | cons p ps ih => cases p <;> simp [uncollect, Piece.text, ih]

theorem natStr_inj {a b : Nat} (h : natStr a = natStr b) : a = b := by
  unfold natStr at h
  have h2 : String.ofList (Nat.repr a).toList = String.ofList (Nat.repr b).toList := congrArg String.ofList h
  rw [String.ofList_toList, String.ofList_toList] at h2
  exact Nat.repr_inj.mp h2

theorem paramName_inj {i j : Nat} (h : paramName i = paramName j) : i = j := by
  unfold paramName at h
  have := natStr_inj (List.append_cancel_left h); omega

/-- numbered placeholders are pairwise distinct (numeric, named and pyformat styles) -/
theorem placeholder_inj (st : ParamStyle) (hs : st = .numeric ∨ st = .named ∨ st = .pyformat) (i j : Nat)
    (h : placeholder st i = placeholder st j) : i = j := by
  rcases hs with hs | hs | hs <;> subst hs
  · have h1 : natStr (i + 1) = natStr (j + 1) := by
      simp only [placeholder, List.cons.injEq, true_and] at h; exact h
    have := natStr_inj h1; omega
  · have h1 : paramName i = paramName j := by
      simp only [placeholder, List.cons.injEq, true_and] at h; exact h
    exact paramName_inj h1
  · have h1 : paramName i ++ sfxPy = paramName j ++ sfxPy := by
      simp only [placeholder, List.cons.injEq, true_and] at h; exact h
    exact paramName_inj (List.append_cancel_right h1)

/-- the dictionary key recovered from the placeholder text is `param<n+1>`, the name the value is stored under -/
theorem key_named (n : Nat) : paramKey .named (placeholder .named n) = paramName n := by
  simp [paramKey, placeholder]

theorem key_pyformat (n : Nat) : paramKey .pyformat (placeholder .pyformat n) = paramName n := by
  have hl : sfxPy.length = 2 := rfl
  have e : ('%' :: '(' :: (paramName n ++ sfxPy)).length - 4 = (paramName n).length := by
    simp only [List.length_cons, List.length_append, hl]; omega
  show List.take (('%' :: '(' :: (paramName n ++ sfxPy)).length - 4) (List.drop 2 ('%' :: '(' :: (paramName n ++ sfxPy))) = paramName n
  rw [e]
  show List.take (paramName n).length (paramName n ++ sfxPy) = paramName n
  exact List.take_left'  rfl

/-- distinct positions get distinct keys (dict styles) -/
theorem keys_distinct (i j : Nat) (h : paramName i = paramName j) : i = j := paramName_inj h

/-- non-vacuity -/
example : flattenP .numeric [.kw "a=".toList, .str true (some '\'') "x'y".toList, .kw " AND b=".toList, .num true ['5']] =
    ("a=:1 AND b=:2".toList, [.str "x'y".toList, .num ['5']]) := by decide

end Pypika.C06
