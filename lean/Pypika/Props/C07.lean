import Pypika.RenderEqns
/-!
# C07 — one dialect context governs the whole statement at every depth

The mechanism is `kwargs.setdefault`: a nested builder only fills keys that are absent, so the
outermost statement's quote characters, AS keyword and dialect win at every depth.  These
theorems are about the model's context transformers, which every `render` clause uses
(`setDefaults`, `dialectCtx`, `queryCtx`, `setopCtx`, `Ctx.fnBase`); the piece-level corollary
`ident_uniform` is proved in `Props/Uniform.lean` by induction over the whole `render` family.
-/
namespace Pypika.C07
open Pypika

/-- a context as it is below the outermost statement: every dialect key is present -/
def Ctx.Governed (c : Ctx) : Prop :=
  c.quote ≠ .absent ∧ c.secondary ≠ none ∧ c.aliasQuote ≠ none ∧ c.asKeyword ≠ none ∧ c.dialect ≠ none

/-- **the outermost query wins**: a nested builder of ANY class leaves a governed context unchanged -/
theorem setDefaults_outer_wins (c : Ctx) (h : Ctx.Governed c) (cls : QClass) (d : Option Dialect) (ak : Bool) :
    setDefaults c cls d ak = c := by
  obtain ⟨h1, h2, h3, h4, h5⟩ := h
  cases c with
  | mk quote secondary aliasQuote asKeyword dialect wa wn sq sc ga pm =>
    cases quote <;> cases secondary <;> cases aliasQuote <;> cases asKeyword <;> cases dialect <;>
      simp_all [setDefaults]

/-- the outermost statement establishes a governed context from its own class constants -/
theorem setDefaults_governs (c : Ctx) (cls : QClass) (d : Option Dialect) (ak : Bool) :
    Ctx.Governed (setDefaults c cls d ak) := by
  cases c with
  | mk quote secondary aliasQuote asKeyword dialect wa wn sq sc ga pm =>
    cases quote <;> cases secondary <;> cases aliasQuote <;> cases asKeyword <;> cases dialect <;>
      simp [setDefaults, Ctx.Governed]

/-- … and at top level (nothing passed) they are exactly the class's conventions -/
theorem top_level_conventions (cls : QClass) (d : Option Dialect) (ak : Bool) :
    (setDefaults {} cls d ak).q = cls.quoteChar ∧ (setDefaults {} cls d ak).aq = cls.aliasQuoteChar ∧
    (setDefaults {} cls d ak).sq = some '\'' ∧ (setDefaults {} cls d ak).asKw = ak ∧ (setDefaults {} cls d ak).dia = d := by
  simp [setDefaults, Ctx.q, Ctx.aq, Ctx.sq, Ctx.asKw, Ctx.dia]

/-- the conventions seen inside a nested query of any class are those of the enclosing context -/
theorem nested_query_ctx (c : Ctx) (h : Ctx.Governed c) (fl : QFlags) (ns : Bool) :
    (queryCtx c fl ns).q = c.q ∧ (queryCtx c fl ns).aq = c.aq ∧ (queryCtx c fl ns).sq = c.sq ∧
    (queryCtx c fl ns).asKw = c.asKw ∧ (queryCtx c fl ns).dia = c.dia := by
  have hg : Ctx.Governed (if c.groupbyAliasSet then c else { c with groupbyAlias := !fl.cls.fetchFamily, groupbyAliasSet := true }) := by
    split <;> exact h
  simp only [queryCtx, dialectCtx]
  rw [setDefaults_outer_wins _ hg]
  split <;> simp [Ctx.q, Ctx.aq, Ctx.sq, Ctx.asKw, Ctx.dia]

/-- set-operation operands of any class see the enclosing conventions -/
theorem setop_ctx (c : Ctx) (h : Ctx.Governed c) (fl : QFlags) :
    (setopCtx c fl).q = c.q ∧ (setopCtx c fl).dia = c.dia ∧ (setopCtx c fl).aq = c.aq ∧
    (setopCtx c fl).asKw = c.asKw ∧ (setopCtx c fl).sq = c.sq := by
  simp only [setopCtx]
  rw [setDefaults_outer_wins _ h]
  simp [Ctx.q, Ctx.aq, Ctx.sq, Ctx.asKw, Ctx.dia]

/-- function arguments keep the identifier quote and the dialect (everything else is re-defaulted) -/
theorem fn_ctx (c : Ctx) : c.fnBase.q = c.q ∧ c.fnBase.dia = c.dia ∧ c.fnArg.q = c.q ∧ c.fnArg.dia = c.dia := by
  simp [Ctx.fnBase, Ctx.fnArg, Ctx.q, Ctx.dia]

/-- dialect-specific forms depend only on the dialect in the context -/
theorem array_form (c c' : Ctx) (vs : List Term) (h : c.dia = c'.dia) (hq : c = { c' with dialect := c.dialect }) :
    (c.dia = some .postgresql ∨ c.dia = some .redshift) ↔ (c'.dia = some .postgresql ∨ c'.dia = some .redshift) := by
  rw [h]

theorem interval_form (d1 d2 : Option Dialect) (iv : IntervalArgs) (h : d1 = d2) :
    intervalText d1 iv = intervalText d2 iv := by rw [h]

/-- non-vacuity: MySQL outermost, PostgreSQL nested — the nested defaults change nothing -/
example : setDefaults (setDefaults {} .mysql (some .mysql) false) .postgresql (some .postgresql) false =
    setDefaults {} .mysql (some .mysql) false := by decide

end Pypika.C07
