import Pypika.DDLBuilder
import Pypika.Guards
/-!
# Property theorems about the CREATE TABLE builder state machine (`DDLBuilder.lean`) — C17 (what the statement
describes is what the calls said, whatever their order) and C14 (the once-only / exclusion guards)
-/
namespace Pypika.DDLB
open Pypika

def raisesC (r : RC) : Bool := match r with | .error _ => true | .ok _ => false
@[simp] theorem raisesC_ok (d : CreateD) : raisesC (.ok d) = false := rfl
@[simp] theorem raisesC_pure (d : CreateD) : raisesC (pure d) = false := rfl
@[simp] theorem raisesC_raise (c : String) : raisesC (raise c) = true := rfl

/-! ## C14 — the guards -/

theorem create_table_once (d : CreateD) (t : TRef) : raisesC (stepC d (.createTable t)) = Guard.createTableRaises d.table.isSome := by
  simp only [stepC, Guard.createTableRaises]; cases d.table.isSome <;> simp

theorem primary_key_once (d : CreateD) (cols : List Str) :
    raisesC (stepC d (.primaryKey cols)) = Guard.primaryKeyRaises (hasPk d) := by
  simp only [stepC, Guard.primaryKeyRaises]
  cases h : hasPk d <;> simp

theorem foreign_key_once (d : CreateD) (cols : List Str) (ref : TRef) (rc : List Str) (od ou : Option Str) :
    raisesC (stepC d (.foreignKey cols ref rc od ou)) =
      Guard.foreignKeyRaises (hasFk d) := by
  simp only [stepC, Guard.foreignKeyRaises]
  cases h : hasFk d <;> simp

theorem columns_after_as_select (d : CreateD) (cs : List ColArg) :
    raisesC (stepC d (.columns cs)) = Guard.columnsRaises d.asSelect.isSome := by
  simp only [stepC, Guard.columnsRaises]; cases d.asSelect.isSome <;> simp

theorem as_select_after_columns (d : CreateD) (q : Query) :
    raisesC (stepC d (.asSelect (some q))) = Guard.asSelectRaises (!d.columns.isEmpty) := by
  simp only [stepC, Guard.asSelectRaises]; cases h : (!d.columns.isEmpty) <;> simp

theorem vertica_local_needs_temporary (d : CreateD) : raisesC (stepC d .local) = Guard.verticaLocalRaises d.temporary := by
  simp only [stepC, Guard.verticaLocalRaises]; cases d.temporary <;> simp

theorem vertica_preserve_needs_temporary (d : CreateD) : raisesC (stepC d .preserveRows) = Guard.verticaLocalRaises d.temporary := by
  simp only [stepC, Guard.verticaLocalRaises]; cases d.temporary <;> simp

/-! ## C17 — the table flags are set once and stay: no later call of any kind clears or replaces one -/

structure FlagsLe (a b : CreateD) : Prop where
  temporary : a.temporary = true → b.temporary = true
  unlogged : a.unlogged = true → b.unlogged = true
  ifNotExists : a.ifNotExists = true → b.ifNotExists = true
  systemVersioning : a.systemVersioning = true → b.systemVersioning = true
  loc : a.local = true → b.local = true
  preserveRows : a.preserveRows = true → b.preserveRows = true

theorem FlagsLe.refl (a : CreateD) : FlagsLe a a := ⟨id, id, id, id, id, id⟩
theorem FlagsLe.trans {a b c : CreateD} (h1 : FlagsLe a b) (h2 : FlagsLe b c) : FlagsLe a c :=
  ⟨fun h => h2.1 (h1.1 h), fun h => h2.2 (h1.2 h), fun h => h2.3 (h1.3 h), fun h => h2.4 (h1.4 h), fun h => h2.5 (h1.5 h),
   fun h => h2.6 (h1.6 h)⟩

theorem step_flags_mono (d d' : CreateD) (c : CCall) (h : stepC d c = .ok d') : FlagsLe d d' := by
  cases c <;> simp only [stepC] at h
  case createTable t => split at h <;> simp [raise, pure, Except.pure] at h; subst h; exact ⟨id, id, id, id, id, id⟩
  case temporary => simp [pure, Except.pure] at h; subst h; exact ⟨fun _ => rfl, id, id, id, id, id⟩
  case unlogged => simp [pure, Except.pure] at h; subst h; exact ⟨id, fun _ => rfl, id, id, id, id⟩
  case withSystemVersioning => simp [pure, Except.pure] at h; subst h; exact ⟨id, id, id, fun _ => rfl, id, id⟩
  case ifNotExists => simp [pure, Except.pure] at h; subst h; exact ⟨id, id, fun _ => rfl, id, id, id⟩
  case columns cs => split at h <;> simp [raise, pure, Except.pure] at h; subst h; exact ⟨id, id, id, id, id, id⟩
  case periodFor n a b => simp [pure, Except.pure] at h; subst h; exact ⟨id, id, id, id, id, id⟩
  case unique cols => simp [pure, Except.pure] at h; subst h; exact ⟨id, id, id, id, id, id⟩
  case primaryKey cols => split at h <;> simp [raise, pure, Except.pure] at h; subst h; exact ⟨id, id, id, id, id, id⟩
  case foreignKey cols ref rc od ou => split at h <;> simp [raise, pure, Except.pure] at h; subst h; exact ⟨id, id, id, id, id, id⟩
  case asSelect q =>
    split at h
    · simp [raise] at h
    · cases q <;> simp [raise, pure, Except.pure] at h; subst h; exact ⟨id, id, id, id, id, id⟩
  case «local» => split at h <;> simp [raise, pure, Except.pure] at h; subst h; exact ⟨id, id, id, id, fun _ => rfl, id⟩
  case preserveRows => split at h <;> simp [raise, pure, Except.pure] at h; subst h; exact ⟨id, id, id, id, id, fun _ => rfl⟩

/-- **C17 (flags)**: after any accepted sequence of builder calls every flag that was set is still set -/
theorem run_flags_mono (d d' : CreateD) (cs : List CCall) (h : runC d cs = .ok d') : FlagsLe d d' := by
  induction cs generalizing d with
  | nil => simp [runC, pure, Except.pure] at h; subst h; exact FlagsLe.refl _
  | cons c cs ih =>
    simp only [runC, bind, Except.bind] at h
    cases hs : stepC d c with
    | error e => rw [hs] at h; simp at h
    | ok d1 => rw [hs] at h; exact FlagsLe.trans (step_flags_mono d d1 c hs) (ih d1 h)

/-- TEMPORARY and UNLOGGED are independent flags: setting one leaves the other as it was, in either order -/
theorem temporary_unlogged_independent (d : CreateD) :
    (stepC d .temporary >>= fun x => stepC x .unlogged) = (stepC d .unlogged >>= fun x => stepC x .temporary) := rfl

/-! ## C17 — columns, UNIQUE sets and PERIOD FOR clauses accumulate in call order -/

theorem columns_append (d : CreateD) (cs : List ColArg) (h : d.asSelect.isSome = false) :
    stepC d (.columns cs) = .ok { d with columns := d.columns ++ cs.map ColArg.toColumn } := by
  simp [stepC, h, pure, Except.pure]

theorem unique_appends (d : CreateD) (cols : List Str) :
    stepC d (.unique cols) = .ok { d with uniques := d.uniques ++ [cols] } := rfl

theorem period_for_appends (d : CreateD) (n a b : Str) :
    stepC d (.periodFor n a b) = .ok { d with periodFors := d.periodFors ++ [(n, a, b)] } := rfl

/-- UNIQUE calls, however many, add their column sets in call order after the existing ones and touch nothing else -/
theorem uniques_in_call_order (d : CreateD) (us : List (List Str)) :
    runC d (us.map CCall.unique) = .ok { d with uniques := d.uniques ++ us } := by
  induction us generalizing d with
  | nil => simp [runC, pure, Except.pure]
  | cons u us ih =>
    simp only [List.map, runC, unique_appends, bind, Except.bind]
    rw [ih]; simp [List.append_assoc]

/-- a column given as a name, as a `(name, type)` pair or as a `Column` becomes exactly that column -/
theorem col_arg_name (n : Str) : (ColArg.name n).toColumn = { name := n } := rfl
theorem col_arg_pair (n t : Str) : (ColArg.pair n t).toColumn = { name := n, type := some t } := rfl

end Pypika.DDLB
