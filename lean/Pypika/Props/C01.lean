import Pypika.Heap
import Pypika.Generated.Effects
/-!
# C01 — builder calls never change any object that already exists

`builder_call_frame`: a builder call = `copy.copy` (with the class's `__copy__` re-copies) followed
by a body whose effects are *safe* for that copy — rebinding attributes, or writing in place only
into containers that are fresh for the copy — leaves every pre-existing object and container
untouched (`Ext`).  `history_frame` lifts this to arbitrary finite, branching histories.
`table_safe_partial` checks (by `decide`, over the table regenerated from `/repo`'s source on every
run) that every `@builder` method of every class has only safe effects, except the listed
argument writes (known findings).
-/
namespace Pypika.C01
open Pypika.Heap

/-- the attributes whose container is known to be fresh (not shared with any older object) -/
def freshAfter (fr : List Attr) : Eff → List Attr
  | .rebind a _ => fr.filter (· ≠ a)
  | .rebindFresh a _ => a :: fr
  | _ => fr

def safeSeq : List Attr → List Eff → Bool
  | _, [] => true
  | fr, e :: es => e.safe fr && safeSeq (freshAfter fr e) es

def applyEffs (h : Heap) (s : Obj) : List Eff → Heap
  | [] => h
  | e :: es => applyEffs (applyEff h s e) s es

/-- cells reachable through attribute `a` of `s` are newer than everything in `h0` -/
def Good (h0 h : Heap) (s : Obj) (a : Attr) : Prop := ∀ c, cellOf h s a = some c → h0.nCell ≤ c

structure Inv (h0 h : Heap) (s : Obj) (fr : List Attr) : Prop where
  ext : Ext h0 h
  isNew : h0.nObj ≤ s
  good : ∀ a ∈ fr, Good h0 h s a

theorem setAttr_ext {h0 h : Heap} {s : Obj} (e : Ext h0 h) (hs : h0.nObj ≤ s) (a v) : Ext h0 (setAttr h s a v) := by
  refine ⟨e.objs, e.cls, ?_, e.cells_eq⟩
  intro o ho
  funext a'
  have : o ≠ s := by omega
  simp [setAttr, this, e.attrs_eq o ho]

theorem cellOf_setAttr_ne (h : Heap) (s : Obj) (a a' : Attr) (v : Val) (hne : a' ≠ a) :
    cellOf (setAttr h s a v) s a' = cellOf h s a' := by
  simp [cellOf, setAttr, hne]

theorem cellOf_setAttr_eq (h : Heap) (s : Obj) (a : Attr) (c : Cell) :
    cellOf (setAttr h s a (.cell c)) s a = some c := by
  simp [cellOf, setAttr]

/-- one safe effect keeps the invariant -/
theorem applyEff_inv {h0 h : Heap} {s : Obj} {fr : List Attr} (inv : Inv h0 h s fr) (e : Eff) (hsafe : e.safe fr = true) :
    Inv h0 (applyEff h s e) s (freshAfter fr e) := by
  cases e with
  | rebind a v =>
    refine ⟨setAttr_ext inv.ext inv.isNew a v, inv.isNew, ?_⟩
    intro a' ha' c hc
    simp only [freshAfter, List.mem_filter, decide_eq_true_eq] at ha'
    rw [applyEff, cellOf_setAttr_ne _ _ _ _ _ ha'.2] at hc
    exact inv.good a' ha'.1 c hc
  | rebindFresh a items =>
    simp only [applyEff]
    cases hc : cellOf h s a with
    | none =>
      refine ⟨inv.ext, inv.isNew, ?_⟩
      intro a' ha' c hc'
      simp only [freshAfter, List.mem_cons] at ha'
      rcases ha' with e | e
      · subst e; rw [hc] at hc'; cases hc'
      · exact inv.good a' e c hc'
    | some c0 =>
      have hext1 : Ext h0 (newCell h (h.cells c0 ++ items)).1 := by
        refine ⟨inv.ext.objs, Nat.le_succ_of_le inv.ext.cls, inv.ext.attrs_eq, ?_⟩
        intro c' hc'
        have : c' ≠ h.nCell := by have := inv.ext.cls; omega
        simp [newCell, this, inv.ext.cells_eq c' hc']
      refine ⟨setAttr_ext hext1 inv.isNew _ _, inv.isNew, ?_⟩
      intro a' ha' c hc'
      simp only [freshAfter, List.mem_cons] at ha'
      by_cases hEq : a' = a
      · subst hEq
        simp only [newCell] at hc'
        rw [cellOf_setAttr_eq] at hc'
        cases hc'
        exact inv.ext.cls
      · rcases ha' with e | e
        · exact absurd e hEq
        · rw [cellOf_setAttr_ne _ _ _ _ _ hEq] at hc'
          have : cellOf (newCell h (h.cells c0 ++ items)).1 s a' = cellOf h s a' := by simp [cellOf, newCell]
          rw [this] at hc'
          exact inv.good a' e c hc'
  | inplace a items =>
    simp only [applyEff]
    have ha : a ∈ fr := by simpa [Eff.safe] using hsafe
    cases hc : cellOf h s a with
    | none => exact ⟨inv.ext, inv.isNew, inv.good⟩
    | some c0 =>
      have hfresh := inv.good a ha c0 hc
      refine ⟨⟨inv.ext.objs, inv.ext.cls, inv.ext.attrs_eq, ?_⟩, inv.isNew, ?_⟩
      · intro c' hc'
        have : c' ≠ c0 := by omega
        simp [appendCell, this, inv.ext.cells_eq c' hc']
      · intro a' ha' c hc'
        have : cellOf (appendCell h c0 items) s a' = cellOf h s a' := by simp [cellOf, appendCell]
        rw [this] at hc'
        exact inv.good a' ha' c hc'
  | argwrite o a v => simp [Eff.safe] at hsafe
  | nested o a items => simp [Eff.safe] at hsafe

theorem applyEffs_inv {h0 h : Heap} {s : Obj} {fr : List Attr} (inv : Inv h0 h s fr) (es : List Eff)
    (hsafe : safeSeq fr es = true) : Ext h0 (applyEffs h s es) := by
  induction es generalizing h fr with
  | nil => exact inv.ext
  | cons e es ih =>
    simp only [safeSeq, Bool.and_eq_true] at hsafe
    exact ih (applyEff_inv inv e hsafe.1) hsafe.2

/-- after `copy.copy`, every attribute of the copy is the receiver's value or a brand-new container,
    and the re-copied ones processed so far are brand-new (or not containers at all) -/
theorem recopy_inv (h0 : Heap) (src dst : Obj) (hsrc : src < h0.nObj) (hdst : h0.nObj ≤ dst) (rc : List Attr) :
    ∀ (h : Heap) (done : List Attr), Ext h0 h →
      (∀ a, h.attrs dst a = h0.attrs src a ∨ ∃ c, h.attrs dst a = some (.cell c) ∧ h0.nCell ≤ c) →
      (∀ a ∈ done, Good h0 h dst a) →
      Ext h0 (recopy h src dst rc) ∧ ∀ a ∈ done ++ rc, Good h0 (recopy h src dst rc) dst a := by
  induction rc with
  | nil => intro h done e _ g; exact ⟨e, by simpa [recopy] using g⟩
  | cons a as ih =>
    intro h done e J g
    simp only [recopy]
    have hsrcEq : h.attrs src = h0.attrs src := e.attrs_eq src hsrc
    cases hc : cellOf h src a with
    | none =>
      have ga : Good h0 h dst a := by
        intro c hcd
        rcases J a with j | ⟨c', j, hc'⟩
        · have : cellOf h dst a = cellOf h src a := by simp [cellOf, j, hsrcEq]
          rw [this, hc] at hcd; cases hcd
        · simp [cellOf, j] at hcd; subst hcd; exact hc'
      have := ih h (done ++ [a]) e J (by
        intro a' ha'
        rcases List.mem_append.mp ha' with x | x
        · exact g a' x
        · simp at x; subst x; exact ga)
      simpa [List.append_assoc] using this
    | some c0 =>
      have hext1 : Ext h0 (newCell h (h.cells c0)).1 := by
        refine ⟨e.objs, Nat.le_succ_of_le e.cls, e.attrs_eq, ?_⟩
        intro c' hc'
        have : c' ≠ h.nCell := by have := e.cls; omega
        simp [newCell, this, e.cells_eq c' hc']
      have hext2 : Ext h0 (setAttr (newCell h (h.cells c0)).1 dst a (.cell (newCell h (h.cells c0)).2)) :=
        setAttr_ext hext1 hdst _ _
      have J2 : ∀ a', (setAttr (newCell h (h.cells c0)).1 dst a (.cell (newCell h (h.cells c0)).2)).attrs dst a' = h0.attrs src a' ∨
          ∃ c, (setAttr (newCell h (h.cells c0)).1 dst a (.cell (newCell h (h.cells c0)).2)).attrs dst a' = some (.cell c) ∧ h0.nCell ≤ c := by
        intro a'
        by_cases hEq : a' = a
        · subst hEq; right; exact ⟨h.nCell, by simp [setAttr, newCell], e.cls⟩
        · have : (setAttr (newCell h (h.cells c0)).1 dst a (.cell (newCell h (h.cells c0)).2)).attrs dst a' = h.attrs dst a' := by
            simp [setAttr, newCell, hEq]
          rw [this]; exact J a'
      have g2 : ∀ a' ∈ done ++ [a], Good h0 (setAttr (newCell h (h.cells c0)).1 dst a (.cell (newCell h (h.cells c0)).2)) dst a' := by
        intro a' ha' c hcd
        by_cases hEq : a' = a
        · subst hEq
          simp only [newCell] at hcd
          rw [cellOf_setAttr_eq] at hcd; cases hcd; exact e.cls
        · rw [cellOf_setAttr_ne _ _ _ _ _ hEq] at hcd
          have : cellOf (newCell h (h.cells c0)).1 dst a' = cellOf h dst a' := by simp [cellOf, newCell]
          rw [this] at hcd
          rcases List.mem_append.mp ha' with x | x
          · exact g a' x c hcd
          · simp at x; exact absurd x hEq
      have := ih _ (done ++ [a]) hext2 J2 g2
      simpa [List.append_assoc] using this

/-- **one builder call**: copy, then a body with safe effects: everything that existed is unchanged -/
theorem builder_call_frame (h : Heap) (src : Obj) (hsrc : src < h.nObj) (rc : List Attr) (es : List Eff)
    (hsafe : safeSeq rc es = true) :
    Ext h (applyEffs (copyObj h src rc).1 (copyObj h src rc).2 es) := by
  have hbase : Ext h { h with nObj := h.nObj + 1, attrs := fun o a => if o = h.nObj then h.attrs src a else h.attrs o a } := by
    refine ⟨Nat.le_succ _, Nat.le_refl _, ?_, fun _ _ => rfl⟩
    intro o ho; funext a
    have : o ≠ h.nObj := by omega
    simp [this]
  have hr := recopy_inv h src h.nObj hsrc (Nat.le_refl _) rc _ [] hbase (by intro a; left; simp) (by intro a ha; cases ha)
  have inv : Inv h (copyObj h src rc).1 (copyObj h src rc).2 rc :=
    ⟨hr.1, Nat.le_refl _, by intro a ha; exact hr.2 a (by simpa using ha)⟩
  exact applyEffs_inv inv es hsafe

/-- a call in a history: which live object is the receiver, its class's re-copied attributes, the body's effects -/
structure BCall where
  src : Obj
  rc : List Attr
  effs : List Eff

def runHistory : Heap → List BCall → Heap
  | h, [] => h
  | h, c :: cs => runHistory (applyEffs (copyObj h c.src c.rc).1 (copyObj h c.src c.rc).2 c.effs) cs

def historyOk : Heap → List BCall → Prop
  | _, [] => True
  | h, c :: cs => c.src < h.nObj ∧ safeSeq c.rc c.effs = true ∧
      historyOk (applyEffs (copyObj h c.src c.rc).1 (copyObj h c.src c.rc).2 c.effs) cs

/-- **any finite, branching history** of safe builder calls (receivers chosen freely among the live objects)
    leaves every object alive at any earlier point exactly as it was: siblings never see each other -/
theorem history_frame (h : Heap) (cs : List BCall) (ok : historyOk h cs) : Ext h (runHistory h cs) := by
  induction cs generalizing h with
  | nil => exact Ext.refl h
  | cons c cs ih =>
    obtain ⟨hs, hsafe, hrest⟩ := ok
    exact Ext.trans (builder_call_frame h c.src hs c.rc c.effs hsafe) (ih _ hrest)

/-! ## the table regenerated from the source: every @builder method is safe, except the listed argument writes -/

open Pypika.Gen in
def safeG (rc : List Pypika.Str) : Pypika.Gen.Eff → Bool
  | .rebind _ => true
  | .inplace a => rc.contains a
  | _ => false

def recopiedOf (cls : Pypika.Str) : List Pypika.Str :=
  match Pypika.Gen.classTable.find? (fun r => r.1 = cls) with
  | some r => r.2.2.2
  | none => []

/-- known findings: the auto-alias written onto a sub-query argument by `from_` and `join` -/
def knownArgWrites : List (Pypika.Str × Pypika.Gen.Eff) :=
  [("from_".toList, .argwrite "selectable.alias".toList), ("join".toList, .argwrite "subquery.alias".toList)]

theorem table_safe_partial :
    Pypika.Gen.builderEffects.all (fun r =>
      r.2.2.all (fun e => safeG (recopiedOf r.1) e || knownArgWrites.contains (r.2.1, e))) = true := by
  decide +kernel

/-- the exclusions are real: those two methods do write to their argument -/
theorem known_argwrites_present :
    (Pypika.Gen.builderEffects.any (fun r => r.2.1 = "from_".toList ∧ r.2.2.contains (.argwrite "selectable.alias".toList))) = true := by
  decide +kernel

/-- non-vacuity: a receiver with one shared list, copied with that attribute re-copied, then appended to -/
example : safeSeq [0] [.inplace 0 [.scalar 7], .rebind 1 (.scalar 2)] = true := by decide
example : safeSeq [] [.inplace 0 [.scalar 7]] = false := by decide

end Pypika.C01
