import Pypika.Props.C02
import Pypika.RenderEqns
import Pypika.Spec.Parser
/-!
# C02 — the bridge: the model's `render` on arithmetic terms IS `renderTok`

`Props/C02.lean` proves `render_sound` about the token-level transcription `renderTok`.  This file
proves that the model's actual renderer (`render`, the function the correspondence check runs
against `/repo` on every case) produces, on any arithmetic term over arbitrary atomic operands,
exactly the image of `renderTok` under the token-to-document map — so `render_sound` is a theorem
about `render`.
-/
namespace Pypika.C02
open Pypika Pypika.Spec

/-- an abstract expression tree instantiated with real terms at its leaves -/
def emb (ρ : Nat → Term) : Tree → Term
  | .leaf a => ρ a
  | .neg t => .neg (emb ρ t) none
  | .bin o l r => .arith o (emb ρ l) (emb ρ r) none

/-- the document of one token -/
def tokDoc (c : Ctx) (ρ : Nat → Term) : Tok → Doc
  | .atom a => render c (ρ a)
  | .op o => [.kw o.text]
  | .lp => K "("
  | .rp => K ")"

def docOf (c : Ctx) (ρ : Nat → Term) : List Tok → Doc
  | [] => []
  | t :: ts => tokDoc c ρ t ++ docOf c ρ ts

theorem docOf_append (c : Ctx) (ρ : Nat → Term) (a b : List Tok) : docOf c ρ (a ++ b) = docOf c ρ a ++ docOf c ρ b := by
  induction a with
  | nil => rfl
  | cons t ts ih => simp [docOf, ih, List.append_assoc]

/-- operands are *atoms*: not themselves arithmetic / sub-query terms, and their text is non-empty and does not start
    with a minus sign (fields, functions, CASE, string literals, non-negative numbers, placeholders …) -/
structure AtomOK (c : Ctx) (ρ : Nat → Term) : Prop where
  top : ∀ a, (ρ a).topOp = .none
  text : ∀ a, ∃ ch, (flatten (render c (ρ a))).head? = some ch ∧ ch ≠ '-'

theorem emb_topOp (ρ : Nat → Term) (c : Ctx) (ok : AtomOK c ρ) (t : Tree) :
    (emb ρ t).topOp = (match topOp t with | .op o => TopOp.op o | _ => TopOp.none) := by
  cases t with
  | leaf a => simp [emb, topOp, ok.top a]
  | neg t => simp [emb, topOp, Term.topOp]
  | bin o l r => simp [emb, topOp, Term.topOp]

theorem docOf_wrap (c : Ctx) (ρ : Nat → Term) (b : Bool) (ts : List Tok) :
    docOf c ρ (wrap b ts) = parensIf b (docOf c ρ ts) := by
  cases b
  · simp [wrap, parensIf]
  · simp [wrap, parensIf, parens, docOf, docOf_append, tokDoc, K, kws]

theorem op_text_head (o : Arith) : o.text.head? = some '-' ↔ o = .sub := by
  cases o <;> simp [Arith.text]

/-- the first character of the document is a minus sign exactly when the first token is the minus operator -/
theorem startsMinus_docOf (c : Ctx) (ρ : Nat → Term) (ok : AtomOK c ρ) (ts : List Tok) :
    startsMinus (docOf c ρ ts) = startsMinusTok ts := by
  cases ts with
  | nil => simp [docOf, startsMinus, startsMinusTok]
  | cons t rest =>
    cases t with
    | atom a =>
      obtain ⟨ch, e, hne⟩ := ok.text a
      simp [docOf, tokDoc, startsMinus, startsMinusTok, flatten_append, List.head?_append, e, hne]
    | op o =>
      cases o <;> simp [docOf, tokDoc, startsMinus, startsMinusTok, Arith.text, Piece.text]
    | lp => simp [docOf, tokDoc, startsMinus, startsMinusTok, K, Piece.text]
    | rp => simp [docOf, tokDoc, startsMinus, startsMinusTok, K, Piece.text]

theorem ctx_noalias (c : Ctx) (h : c.withAlias = false) : { c with withAlias := false } = c := by
  cases c; simp_all

/-- **the bridge.**  For every arithmetic tree over atomic operands, the model's renderer gives the document of
    `renderTok`'s token list. -/
theorem render_emb (c : Ctx) (hc : c.withAlias = false) (ρ : Nat → Term) (ok : AtomOK c ρ) :
    ∀ e : Tree, render c (emb ρ e) = docOf c ρ (renderTok e) := by
  intro e
  induction e with
  | leaf a => simp [emb, renderTok, docOf, tokDoc]
  | neg t ih =>
    have he := emb_topOp ρ c ok t
    simp only [emb, render_neg, ctx_noalias c hc, renderTok, docOf, tokDoc, aliasDoc, opt]
    rw [ih, he, startsMinus_docOf c ρ ok, docOf_wrap]
    cases topOp t <;> simp [isOp, kws, Arith.text]
  | bin o l r ihl ihr =>
    have hl : (emb ρ l).topOp = topOp l := by
      rw [emb_topOp ρ c ok l]; cases h : topOp l <;> simp
      all_goals (cases l <;> simp [topOp] at h)
    have hr : (emb ρ r).topOp = topOp r := by
      rw [emb_topOp ρ c ok r]; cases h : topOp r <;> simp
      all_goals (cases r <;> simp [topOp] at h)
    simp only [emb, render_arith, ctx_noalias c hc, renderTok, aliasDoc, opt]
    rw [ihl, ihr, hl, hr, startsMinus_docOf c ρ ok, docOf_append]
    simp [docOf, tokDoc, docOf_wrap]

/-- **C02 for the model's renderer.**  The document `render` produces for any arithmetic term over atomic operands is
    the image of a token list that derives, in the layered grammar, a tree with the same value in every admissible
    algebra and environment. -/
theorem render_sound_model {α : Type} (A : Alg α) (env : Nat → α) (c : Ctx) (hc : c.withAlias = false)
    (ρ : Nat → Term) (ok : AtomOK c ρ) (e : Tree) :
    ∃ ts t', render c (emb ρ e) = docOf c ρ ts ∧ G (lvlOf e) ts t' ∧ eval A env t' = eval A env e := by
  obtain ⟨t', g, ev⟩ := render_sound A env e
  exact ⟨renderTok e, t', render_emb c hc ρ ok e, g, ev⟩

/-- **comparison level.**  A comparison of two arithmetic trees is rendered as the two operand renderings around the
    operator, with no parentheses of its own: each side derives (at the loosest arithmetic level) a tree of equal value,
    so the comparison takes whole arithmetic expressions as operands and never chains. -/
theorem render_cmp (c : Ctx) (hc : c.withAlias = false) (q : Option Char) (hq : c.quote = .given q) (ρ : Nat → Term)
    (ok : AtomOK c ρ) (cmp : Str) (e1 e2 : Tree) :
    render c (.basic cmp (emb ρ e1) (emb ρ e2) none) = docOf c ρ (renderTok e1) ++ .kw cmp :: docOf c ρ (renderTok e2) := by
  have e : ({ c with quote := .given c.basicQ, withAlias := false } : Ctx) = c := by
    cases c; simp_all [Ctx.basicQ]
  simp only [render_basic, e, aliasDoc, opt]
  rw [render_emb c hc ρ ok e1, render_emb c hc ρ ok e2]
  simp

theorem cmp_operands_sound {α : Type} (A : Alg α) (env : Nat → α) (e1 e2 : Tree) :
    ∃ t1 t2, G 0 (renderTok e1) t1 ∧ G 0 (renderTok e2) t2 ∧ eval A env t1 = eval A env e1 ∧ eval A env t2 = eval A env e2 := by
  obtain ⟨t1, g1, v1⟩ := render_sound A env e1
  obtain ⟨t2, g2, v2⟩ := render_sound A env e2
  exact ⟨t1, t2, G.to g1 (Nat.zero_le _) (lvlOf_le e1), G.to g2 (Nat.zero_le _) (lvlOf_le e2), v1, v2⟩

/-- **C02, arithmetic level, with the reading made unique.**  `G` is unambiguous (`Spec.G_unambiguous`, by completeness of
    a deterministic precedence parser), so *every* derivation of the rendered tokens — there is exactly one — denotes the
    function the user's tree denotes. -/
theorem every_reading_agrees {α : Type} (A : Alg α) (env : Nat → α) (e t' : Tree) (g : G (lvlOf e) (renderTok e) t') :
    eval A env t' = eval A env e := by
  obtain ⟨t0, g0, v0⟩ := render_sound A env e
  rw [G_unambiguous g g0]; exact v0

/-- the parser reads the rendered tokens back as a tree of equal value (executable form) -/
theorem parse_renderTok {α : Type} (A : Alg α) (env : Nat → α) (e : Tree) :
    ∃ f t', parse f (lvlOf e) (renderTok e) = some (t', []) ∧ eval A env t' = eval A env e := by
  obtain ⟨t0, g0, v0⟩ := render_sound A env e
  obtain ⟨f, hf⟩ := parse_of_G g0
  exact ⟨f, t0, hf, v0⟩

/-- non-vacuity: fields and a function call are atoms in the `str()` context -/
def rho0 : Nat → Term
  | 0 => .field "a".toList none none
  | 1 => .field "b".toList none (some { name := some "t".toList })
  | _ => .func "ABS".toList none [.field "c".toList none none] false none none none false [] [] none false none

example : AtomOK Ctx.ofStr rho0 := by
  refine ⟨fun a => ?_, fun a => ?_⟩
  · match a with
    | 0 => rfl
    | 1 => rfl
    | n + 2 => rfl
  · match a with
    | 0 => exact ⟨'"', by decide, by decide⟩
    | 1 => exact ⟨'"', by decide, by decide⟩
    | n + 2 => exact ⟨'A', by show (flatten (render Ctx.ofStr (rho0 2))).head? = _; decide, by decide⟩

example : flatten (render Ctx.ofStr (emb rho0 (.bin .sub (.leaf 0) (.neg (.bin .lshift (.leaf 1) (.leaf 2)))))) =
    "\"a\"-(-(\"b\"<<ABS(\"c\")))".toList := by decide

end Pypika.C02
