import Std.Data.String.ToNat
import Pypika.RenderTerm
/-!
# C12 — limit / offset / slice select the requested row window in every dialect

`readWindow` is the specification: it reads a pagination tail with the grammar of the dialect's
family and returns `(rows skipped, rows kept)`.  `window_correct` holds for every `n`, `m`
(unbounded) and every class; the tie of `paginate` to the code is `Agree.pagination`.
-/
namespace Pypika.C12
open Pypika

def readNat (t : Str) : Option Nat := (String.ofList t).toNat?

theorem readNat_natText (n : Nat) : readNat (natText n) = some n := by
  unfold readNat natText
  rw [String.ofList_toList]
  exact Nat.toNat?_repr n

theorem kw_ne : kwLimit ≠ kwOffset ∧ kwOffset ≠ kwLimit ∧ kwOffset ≠ kwFetchNext ∧ kwFetchNext ≠ kwOffset ∧
    kwRows ≠ kwRowsOnly ∧ kwRowsOnly ≠ kwRows := by decide

/-- LIMIT family: `LIMIT n [OFFSET m]`, or nothing, or a bare `OFFSET m` -/
def readLimitFamily : Doc → Option (Nat × Option Nat)
  | [] => some (0, none)
  | [.kw k1, .num _ a] =>
      if k1 = kwLimit then (readNat a).map (fun n => (0, some n))
      else if k1 = kwOffset then (readNat a).map (fun m => (m, none))
      else none
  | [.kw k1, .num _ a, .kw k2, .num _ b] =>
      if k1 = kwLimit && k2 = kwOffset then
        match readNat a, readNat b with
        | some n, some m => some (m, some n)
        | _, _ => none
      else none
  | _ => none

/-- fetch family (Oracle, MSSQL): `[OFFSET m ROWS] [FETCH NEXT n ROWS ONLY]`, offset first -/
def readFetchFamily : Doc → Option (Nat × Option Nat)
  | [] => some (0, none)
  | [.kw k1, .num _ a, .kw k2] =>
      if k1 = kwOffset && k2 = kwRows then (readNat a).map (fun m => (m, none))
      else if k1 = kwFetchNext && k2 = kwRowsOnly then (readNat a).map (fun n => (0, some n))
      else none
  | [.kw k1, .num _ a, .kw k2, .kw k3, .num _ b, .kw k4] =>
      if k1 = kwOffset && k2 = kwRows && k3 = kwFetchNext && k4 = kwRowsOnly then
        match readNat a, readNat b with
        | some m, some n => some (m, some n)
        | _, _ => none
      else none
  | _ => none

def readWindow (cls : QClass) (d : Doc) : Option (Nat × Option Nat) :=
  if cls.fetchFamily then readFetchFamily d else readLimitFamily d

/-- the window a user asked for: skip `offset` rows (none = 0), keep `limit` rows (none = all) -/
def requested (limit offset : Option Nat) : Nat × Option Nat := (offset.getD 0, limit)

/-- **C12, full strength**: every dialect's tail reads back as the requested window, for all n, m
    (including 0 and absent) -/
theorem window_correct (cls : QClass) (limit offset : Option Nat) :
    readWindow cls (paginate cls limit offset) = some (requested limit offset) := by
  have ⟨h1, h2, h3, h4, h5, h6⟩ := kw_ne
  cases cls <;> cases limit <;> cases offset <;>
    simp [readWindow, QClass.fetchFamily, paginate, requested, readLimitFamily, readFetchFamily,
      limitDoc, offsetDoc, readNat_natText, h1, h2, h3, h4, h5, h6] <;>
  (rename_i m; cases m <;>
    simp [readLimitFamily, readFetchFamily, limitDoc, offsetDoc, readNat_natText, h1, h2, h3, h4, h5, h6])

/-- a limit of 0 is kept: the tail of `limit(0)` is never empty -/
theorem limit_zero_kept (cls : QClass) (offset : Option Nat) : paginate cls (some 0) offset ≠ [] := by
  cases cls <;> cases offset <;> simp [paginate, limitDoc, offsetDoc] <;>
  (rename_i m; cases m <;> simp [limitDoc, offsetDoc])

/-- MSSQL emits an offset whenever a fetch is present -/
theorem mssql_offset_with_fetch (n : Nat) (offset : Option Nat) :
    ∃ m, paginate .mssql (some n) offset =
      .kw kwOffset :: .num false (natText m) :: .kw kwRows :: limitDoc true n := by
  cases offset with
  | none => exact ⟨0, by simp [paginate, offsetDoc]⟩
  | some m => cases m with
    | zero => exact ⟨0, by simp [paginate, offsetDoc]⟩
    | succ k => exact ⟨k + 1, by simp [paginate, offsetDoc]⟩

/-- set operations always use the LIMIT family -/
theorem setop_window_correct (limit offset : Option Nat) :
    readLimitFamily (setopPaginate limit offset) = some (requested limit offset) := by
  have ⟨h1, h2, _, _, _, _⟩ := kw_ne
  cases limit <;> cases offset <;>
    simp [setopPaginate, requested, readLimitFamily, limitDoc, offsetDoc, readNat_natText, h1, h2] <;>
  (rename_i m; cases m <;> simp [readLimitFamily, limitDoc, offsetDoc, readNat_natText, h1, h2])

/-! ### last call of a kind wins (the builder's setters) -/

inductive PCall | limit (n : Nat) | offset (m : Nat) | slice (start stop : Option Nat)
  deriving Repr

/-- `limit()`, `offset()`, `slice()` : each overwrites its slot(s) -/
def pstep (s : Option Nat × Option Nat) : PCall → Option Nat × Option Nat
  | .limit n => (some n, s.2)
  | .offset m => (s.1, some m)
  | .slice a b => (b, a)

def lastLimit : List PCall → Option Nat → Option Nat
  | [], d => d
  | .limit n :: cs, _ => lastLimit cs (some n)
  | .offset _ :: cs, d => lastLimit cs d
  | .slice _ b :: cs, _ => lastLimit cs b

def lastOffset : List PCall → Option Nat → Option Nat
  | [], d => d
  | .limit _ :: cs, d => lastOffset cs d
  | .offset m :: cs, _ => lastOffset cs (some m)
  | .slice a _ :: cs, _ => lastOffset cs a

/-- after any sequence of calls the state is what the last call touching each slot set -/
theorem last_wins (cs : List PCall) (s : Option Nat × Option Nat) :
    cs.foldl pstep s = (lastLimit cs s.1, lastOffset cs s.2) := by
  induction cs generalizing s with
  | nil => rfl
  | cons c cs ih => cases c <;> simp [List.foldl, pstep, lastLimit, lastOffset, ih]

/-- non-vacuity -/
example : flatten (paginate .mssql (some 0) none) = " OFFSET 0 ROWS FETCH NEXT 0 ROWS ONLY".toList := by decide
example : readWindow .oracle (paginate .oracle (some 5) (some 3)) = some (3, some 5) := window_correct _ _ _

end Pypika.C12
