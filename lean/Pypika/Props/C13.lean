import Pypika.RenderEqns
/-!
# C13 — aliases are defined once where selected and referenced consistently

For each aliasable kind the statement names (field, arithmetic, function/aggregate/analytic, CASE,
sub-query — plus negated expressions and comparison / AND-OR criteria): with `with_alias` the
rendering is the un-aliased rendering followed by exactly one `aliasDef` piece carrying the
dialect's alias quote and AS keyword; without it the alias is not rendered at all.
-/
namespace Pypika.C13
open Pypika

/-- the one piece an alias definition consists of -/
def aliasPiece (c : Ctx) (q : Option Char) (a : Str) : Piece := .aliasDef (orQ c.aq q) c.asKw a

theorem aliasDoc_some (c : Ctx) (q : Option Char) (a : Str) : aliasDoc c q (some a) = [aliasPiece c q a] := rfl
theorem aliasDoc_none (c : Ctx) (q : Option Char) : aliasDoc c q none = [] := rfl

/-! ### with_alias = false: the alias is not rendered -/

theorem field_no_alias (c : Ctx) (n : Str) (a : Option Str) (t : Option TRef) (h : c.withAlias = false) :
    render c (.field n a t) = render c (.field n none t) := by
  rw [render_field, render_field]; simp [opt, h]

theorem arith_no_alias (c : Ctx) (op : Arith) (l r : Term) (a : Option Str) (h : c.withAlias = false) :
    render c (.arith op l r a) = render c (.arith op l r none) := by
  rw [render_arith, render_arith]; simp [opt, h]

theorem neg_no_alias (c : Ctx) (t : Term) (a : Option Str) (h : c.withAlias = false) :
    render c (.neg t a) = render c (.neg t none) := by
  rw [render_neg, render_neg]; simp [opt, h]

theorem case_no_alias (c : Ctx) (ws : List (Term × Term)) (e : Option Term) (a : Option Str) (h : c.withAlias = false) :
    render c (.case ws e a) = render c (.case ws e none) := by
  rw [render_case, render_case]
  simp only [opt, h, Bool.false_eq_true, if_false]

theorem basic_no_alias (c : Ctx) (cmp : Str) (l r : Term) (a : Option Str) (h : c.withAlias = false) :
    render c (.basic cmp l r a) = render c (.basic cmp l r none) := by
  rw [render_basic, render_basic]; simp [opt, h]

theorem complex_no_alias (c : Ctx) (op : BoolOp) (l r : Term) (a : Option Str) (h : c.withAlias = false) :
    render c (.complex op l r a) = render c (.complex op l r none) := by
  rw [render_complex, render_complex]; simp [opt, h]

theorem func_no_alias (c : Ctx) (name : Str) (schema : Option (List Str)) (args : List Term) (d : Bool) (sp : Option Str)
    (ef flt : Option Term) (ov : Bool) (part : List Term) (oo : List (Term × Option Ord)) (fr : Option Frame) (np : Bool)
    (a : Option Str) (h : c.withAlias = false) :
    render c (.func name schema args d sp ef flt ov part oo fr np a) =
      render c (.func name schema args d sp ef flt ov part oo fr np none) := by
  rw [render_func, render_func]; simp [opt, h]

/-- function arguments, whatever they are, are rendered with `with_alias = false` -/
theorem fnArg_no_alias (c : Ctx) : c.fnArg.withAlias = false ∧ c.fnBase.withAlias = false := by
  simp [Ctx.fnArg, Ctx.fnBase]

/-! ### with_alias = true: expression, then exactly one alias definition -/

theorem field_alias_once (c : Ctx) (n a : Str) (t : Option TRef) (h : c.withAlias = true) :
    render c (.field n (some a) t) = render c (.field n none t) ++ [aliasPiece c c.q a] := by
  rw [render_field, render_field]; simp [opt, h, aliasDoc_some, aliasDoc_none]

theorem arith_alias_once (c : Ctx) (op : Arith) (l r : Term) (a : Str) (h : c.withAlias = true) :
    render c (.arith op l r (some a)) = render c (.arith op l r none) ++ [aliasPiece c c.q a] := by
  rw [render_arith, render_arith]; simp [opt, h, aliasDoc_some, aliasDoc_none]

theorem neg_alias_once (c : Ctx) (t : Term) (a : Str) (h : c.withAlias = true) :
    render c (.neg t (some a)) = render c (.neg t none) ++ [aliasPiece c c.q a] := by
  rw [render_neg, render_neg]; simp [opt, h, aliasDoc_some, aliasDoc_none]

theorem case_alias_once (c : Ctx) (ws : List (Term × Term)) (e : Option Term) (a : Str) (h : c.withAlias = true) :
    render c (.case ws e (some a)) = render c (.case ws e none) ++ [aliasPiece { c with withAlias := false } c.q a] := by
  rw [render_case, render_case]
  simp only [opt, h, if_true, aliasDoc_some, aliasDoc_none, List.append_nil]
  cases ws.isEmpty <;> simp [List.append_assoc]

theorem func_alias_once (c : Ctx) (name : Str) (schema : Option (List Str)) (args : List Term) (d : Bool) (sp : Option Str)
    (ef flt : Option Term) (ov : Bool) (part : List Term) (oo : List (Term × Option Ord)) (fr : Option Frame) (np : Bool)
    (a : Str) (h : c.withAlias = true) :
    render c (.func name schema args d sp ef flt ov part oo fr np (some a)) =
      render c (.func name schema args d sp ef flt ov part oo fr np none) ++ [aliasPiece c c.q a] := by
  rw [render_func, render_func]; simp [opt, h, aliasDoc_some, aliasDoc_none, aliasPiece, Ctx.aq, Ctx.asKw]

/-- the alias piece carries the dialect's alias quote (`alias_quote_char or quote_char`) and AS keyword -/
theorem aliasPiece_text (c : Ctx) (q : Option Char) (a : Str) :
    (aliasPiece c q a).text = (if c.asKw then " AS ".toList else [' ']) ++ quoteWith (orQ c.aq q) a := rfl

/-! ### GROUP BY / ORDER BY: a reference to the alias exactly when it is selected (and allowed) -/

theorem groupby_item (c : Ctx) (sel : List Term) (useAlias : Bool) (aq : Option Char) (t : Term) (ts : List Term) :
    renderGroupBy c sel useAlias aq (t :: ts) =
      (if useAlias && aliasSelected sel t.alias? then [Piece.aliasRef (orQ aq c.q) (t.alias?.getD [])] else render c t) ::
        renderGroupBy c sel useAlias aq ts := renderGroupBy_eq_2 c sel useAlias aq

/-- a reference is only ever written for an alias that some select term defines -/
theorem ref_is_defined (sel : List Term) (a : Option Str) (h : aliasSelected sel a = true) :
    ∃ t ∈ sel, t.alias? = a ∧ truthyStr a = true := by
  simp only [aliasSelected, selectedAliases, Bool.and_eq_true, List.contains_iff_mem, List.mem_map] at h
  obtain ⟨h1, t, ht, e⟩ := h
  exact ⟨t, ht, e, h1⟩

/-- a top-level Oracle / MSSQL statement (nothing above it has decided) does not group by alias … -/
theorem fetch_family_no_groupby_alias (c : Ctx) (fl : QFlags) (ns : Bool) (h : fl.cls.fetchFamily = true)
    (hc : c.groupbyAliasSet = false) : (queryCtx c fl ns).groupbyAlias = false := by
  simp [queryCtx, dialectCtx, h, hc, setDefaults]

/-- … any other top-level statement does … -/
theorem alias_family_groupby_alias (c : Ctx) (fl : QFlags) (ns : Bool) (h : fl.cls.fetchFamily = false)
    (hc : c.groupbyAliasSet = false) : (queryCtx c fl ns).groupbyAlias = true := by
  simp [queryCtx, dialectCtx, h, hc, setDefaults]

/-- … and the decision of the outermost statement holds at every depth below it, whichever class built the nested
    statement (in both directions) -/
theorem groupby_alias_sticky (c : Ctx) (fl : QFlags) (ns : Bool) (h : c.groupbyAliasSet = true) :
    (queryCtx c fl ns).groupbyAlias = c.groupbyAlias ∧ (queryCtx c fl ns).groupbyAliasSet = true := by
  simp [queryCtx, dialectCtx, h, setDefaults]

theorem groupby_alias_decided (c : Ctx) (fl : QFlags) (ns : Bool) : (queryCtx c fl ns).groupbyAliasSet = true := by
  simp only [queryCtx, dialectCtx]
  split <;> simp_all [setDefaults]

end Pypika.C13
