import Pypika.DDL
/-!
# C17 — CREATE / DROP statements define exactly the schema objects described
-/
namespace Pypika.C17
open Pypika

/-- **every column exactly once, in the order given, first in the body** -/
theorem columns_once_in_order (k : Ctx) (d : CreateD) :
    (d.bodyClauses k).take d.columns.length = d.columns.map (ColumnD.doc k) := by
  simp [CreateD.bodyClauses, List.take_append_of_le_length]

/-- the body is: the columns, the PERIOD FOR clauses, the UNIQUE sets, then at most one PRIMARY KEY and one FOREIGN KEY -/
theorem body_count (k : Ctx) (d : CreateD) :
    (d.bodyClauses k).length = d.columns.length + d.periodFors.length + d.uniques.length +
      (match d.primaryKey with | some pk => if pk.isEmpty then 0 else 1 | none => 0) +
      (match d.foreignKey with | some (cols, _, _) => if cols.isEmpty then 0 else 1 | none => 0) := by
  simp only [CreateD.bodyClauses, List.length_append, List.length_map]
  cases d.primaryKey with
  | none => cases d.foreignKey with
    | none => simp
    | some fk => obtain ⟨c, r, rc⟩ := fk; cases hc : c.isEmpty <;> simp [hc]
  | some pk =>
    cases hp : pk.isEmpty <;> cases d.foreignKey with
    | none => simp [hp]
    | some fk => obtain ⟨c, r, rc⟩ := fk; cases hc : c.isEmpty <;> simp [hp, hc]

/-- each UNIQUE set appears once, in call order, right after the columns and PERIOD FOR clauses -/
theorem uniques_in_order (k : Ctx) (d : CreateD) :
    ∃ pre post, d.bodyClauses k = pre ++ d.uniques.map (fun u => kws "UNIQUE (" :: namesDoc k.q u ++ K ")") ++ post ∧
      pre.length = d.columns.length + d.periodFors.length := by
  unfold CreateD.bodyClauses
  exact ⟨_, _, by rw [List.append_assoc (_ ++ _)], by simp⟩

/-- a column's attributes are exactly those given -/
theorem column_doc (k : Ctx) (n : Str) (ty : Str) (hty : ty ≠ []) (nullable : Bool) :
    ColumnD.doc k { name := n, type := some ty, nullable := some nullable } =
      [.ident k.q n, kws " ", .raw ty] ++ (if nullable then K " NULL" else K " NOT NULL") := by
  cases nullable <;> simp [ColumnD.doc, hty]

theorem column_default (k : Ctx) (n : Str) (t : Term) :
    ColumnD.doc k { name := n, default := some t } = .ident k.q n :: kws " DEFAULT " :: render k t := by
  simp [ColumnD.doc]

/-- AS SELECT and a column body exclude each other: with AS SELECT no body clause is rendered -/
theorem as_select_exclusive (c : Ctx) (d : CreateD) (t : TRef) (q : Query) (ht : d.table = some t) (hq : d.asSelect = some q)
    (hv : d.vertica = false) :
    renderCreate c d =
      (kws "CREATE " :: (if d.temporary then K "TEMPORARY " else if d.unlogged then K "UNLOGGED " else []) ++ kws "TABLE " ::
        opt d.ifNotExists (K "IF NOT EXISTS ") ++ (t.doc (d.ctx c) ++ aliasDoc (d.ctx c) (d.ctx c).q t.alias)) ++
      kws " AS (" :: renderQuery (d.ctx c) q ++ K ")" := by
  simp [renderCreate, ht, hq, hv]

/-- TEMPORARY wins over UNLOGGED; IF NOT EXISTS follows TABLE; the body follows the table name -/
theorem table_flags (c : Ctx) (d : CreateD) (t : TRef) (ht : d.table = some t) (hc : d.columns ≠ []) (hv : d.vertica = false)
    (hq : d.asSelect = none) :
    renderCreate c d =
      (kws "CREATE " :: (if d.temporary then K "TEMPORARY " else if d.unlogged then K "UNLOGGED " else []) ++ kws "TABLE " ::
        opt d.ifNotExists (K "IF NOT EXISTS ") ++ (t.doc (d.ctx c) ++ aliasDoc (d.ctx c) (d.ctx c).q t.alias)) ++
      kws " (" :: joinDocs (K ",") (d.bodyClauses (d.ctx c)) ++ kws ")" :: opt d.systemVersioning (K " WITH SYSTEM VERSIONING") := by
  have : d.columns.isEmpty = false := by cases h : d.columns <;> simp_all
  simp [renderCreate, ht, hq, hv, this, opt]

/-- CREATE INDEX names exactly the given index, table and columns with the given options -/
theorem create_index_layout (d : IndexD) (hc : d.columns ≠ []) (ht : d.table ≠ []) :
    renderCreateIndex d =
      kws "CREATE " :: opt d.unique (K "UNIQUE ") ++ kws "INDEX " :: opt d.ifNotExists (K "IF NOT EXISTS ") ++
        [.raw d.index, kws " ON ", .raw d.table, kws "("] ++ joinDocs (K ", ") (d.columns.map fun n => [Piece.raw n]) ++ K ")" ++
        (match d.wheres with | some w => [kws " WHERE ", .raw w] | none => []) := by
  have h1 : d.columns.isEmpty = false := by cases h : d.columns <;> simp_all
  have h2 : d.table.isEmpty = false := by cases h : d.table <;> simp_all
  simp only [renderCreateIndex, h1, h2, Bool.false_eq_true, if_false]
  cases d.wheres <;> rfl

/-- DROP names exactly the given object -/
theorem drop_layout (d : DropD) (h : d.cluster = none) :
    renderDrop d = kws "DROP " :: .raw d.kind :: kws " " :: opt d.ifExists (K "IF EXISTS ") ++ d.target := by
  simp [renderDrop, h]

end Pypika.C17
