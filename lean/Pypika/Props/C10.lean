import Pypika.RenderEqns
import Pypika.Names
import Pypika.Props.C06
/-!
# C10 — column references resolve to exactly the source they were bound to
-/
namespace Pypika.C10
open Pypika

/-- the in-statement name of a source: its alias when it has one, otherwise its table name -/
theorem nsName_alias (t : TRef) (a : Str) (h : t.alias = some a) (ha : a ≠ []) : t.nsName = a := by
  cases a with
  | nil => exact absurd rfl ha
  | cons x xs => simp [TRef.nsName, h, truthyStr]

theorem nsName_name (t : TRef) (n : Str) (h : t.alias = none) (hn : t.name = some n) : t.nsName = n := by
  simp [TRef.nsName, h, hn, truthyStr]

/-- **qualification**: whenever the statement asks for namespaces, a column bound to a source is
    rendered `qualifier.column`, the qualifier being the source's in-statement name -/
theorem field_qualified (c : Ctx) (n : Str) (t : TRef) (h : c.withNamespace = true) (hw : c.withAlias = false) :
    render c (.field n none (some t)) = [.ident c.q t.nsName, kws ".", .ident c.q n] := by
  rw [render_field]; simp [needsNs, h, hw, opt]

/-- **a column of an aliased source is qualified by the alias in every statement**, namespaces asked for or not -/
theorem alias_always (c : Ctx) (n a : Str) (t : TRef) (h : t.alias = some a) (ha : a ≠ []) (hw : c.withAlias = false) :
    render c (.field n none (some t)) = [.ident c.q a, kws ".", .ident c.q n] := by
  have hn : t.nsName = a := nsName_alias t a h ha
  have ht : truthyStr t.alias = true := by
    cases a with
    | nil => exact absurd rfl ha
    | cons x xs => simp [h, truthyStr]
  rw [render_field]; simp [needsNs, ht, hw, opt, hn]

/-- an unbound column, or an un-aliased source in a single-source statement, is written bare -/
theorem field_bare (c : Ctx) (n : Str) (t : TRef) (h : c.withNamespace = false) (ha : t.alias = none) (hw : c.withAlias = false) :
    render c (.field n none (some t)) = [.ident c.q n] := by
  rw [render_field]; simp [needsNs, h, ha, hw, opt, truthyStr]

/-- the five situations in which a statement qualifies its columns -/
theorem wantsNamespace_iff (fl : QFlags) (hasJoins : Bool) (nFrom : Nat) (fromQ hasUpdate : Bool) :
    wantsNamespace fl hasJoins nFrom fromQ hasUpdate = true ↔
      (hasJoins = true ∨ 1 < nFrom ∨ fromQ = true ∨ fl.foreignTable = true ∨ (hasUpdate = true ∧ 0 < nFrom)) := by
  simp [wantsNamespace, Bool.or_eq_true, Bool.and_eq_true, or_assoc]

/-- that decision is what every clause of the statement is rendered with -/
theorem statement_namespace (c : Ctx) (fl : QFlags) (ns : Bool) : (queryCtx c fl ns).withNamespace = ns := rfl

/-- schema / database prefixes are written outermost first, on the table itself -/
theorem schema_outermost_first (q : Option Char) (a b : Str) (rest : List Str) :
    schemaDoc q (a :: b :: rest) = .ident q a :: kws "." :: schemaDoc q (b :: rest) := rfl

/-! ### invented sub-query names -/

theorem sqName_inj {a b : Nat} (h : sqName a = sqName b) : a = b := by
  have : natText a = natText b := by simpa [sqName] using h
  exact C06.natStr_inj this

theorem tagAll_ge (count : Nat) (subs : List Nat) : ∀ n ∈ tagAll count subs, ∃ k, count ≤ k ∧ n = sqName k := by
  induction subs generalizing count with
  | nil => intro n hn; cases hn
  | cons s rest ih =>
    intro n hn
    simp only [tagAll, tag, List.mem_cons] at hn
    rcases hn with h | h
    · exact ⟨max count s, Nat.le_max_left _ _, h⟩
    · obtain ⟨k, hk, e⟩ := ih _ n h
      exact ⟨k, by omega, e⟩

/-- **names invented within one statement are pairwise distinct**, whatever counters the sub-queries carry -/
theorem invented_names_distinct (count : Nat) (subs : List Nat) : (tagAll count subs).Nodup := by
  induction subs generalizing count with
  | nil => simp [tagAll]
  | cons s rest ih =>
    simp only [tagAll, tag, List.nodup_cons]
    refine ⟨?_, ih _⟩
    intro hmem
    obtain ⟨k, hk, e⟩ := tagAll_ge _ _ _ hmem
    have := sqName_inj e
    omega

/-- non-vacuity -/
example : tagAll 0 [0, 0, 2, 0] = [sqName 0, sqName 1, sqName 2, sqName 3] := by decide

/-! `from_` and `join` name an un-aliased sub-query by different rules: `from_` continues after the sub-query's own
counter (`max`), `join` (`_tag_subquery`) uses the statement's counter alone.  The harness runs `tagCalls` against the
names the real calls give (driver op `tagcalls`). -/

theorem tagStep_lt (count : Nat) (c : TagCall) : ∃ k, count ≤ k ∧ (tagStep count c).1 = sqName k ∧ (tagStep count c).2 = k + 1 := by
  cases c with
  | from_ sub => exact ⟨max count sub, Nat.le_max_left _ _, rfl, rfl⟩
  | join => exact ⟨count, Nat.le_refl _, rfl, rfl⟩

theorem tagCalls_ge (count : Nat) (cs : List TagCall) : ∀ n ∈ tagCalls count cs, ∃ k, count ≤ k ∧ n = sqName k := by
  induction cs generalizing count with
  | nil => intro n hn; cases hn
  | cons c rest ih =>
    intro n hn
    obtain ⟨k, hk, e1, e2⟩ := tagStep_lt count c
    simp only [tagCalls, List.mem_cons] at hn
    rcases hn with h | h
    · exact ⟨k, hk, h.trans e1⟩
    · rw [e2] at h
      obtain ⟨k', hk', e⟩ := ih _ n h
      exact ⟨k', by omega, e⟩

/-- **the names invented by any mix of `from_` and `join` calls on one statement are pairwise distinct** -/
theorem invented_names_distinct_calls (count : Nat) (cs : List TagCall) : (tagCalls count cs).Nodup := by
  induction cs generalizing count with
  | nil => simp [tagCalls]
  | cons c rest ih =>
    obtain ⟨k, hk, e1, e2⟩ := tagStep_lt count c
    simp only [tagCalls, List.nodup_cons]
    refine ⟨?_, ih _⟩
    intro hmem
    rw [e2] at hmem
    obtain ⟨k', hk', e⟩ := tagCalls_ge _ _ _ hmem
    have := sqName_inj (e1.symm.trans e)
    omega

example : tagCalls 0 [.from_ 0, .join, .from_ 1, .from_ 2, .join] = [sqName 0, sqName 1, sqName 2, sqName 3, sqName 4] := by decide

end Pypika.C10
