import Pypika.RenderEqns
import Pypika.Props.C06
/-!
# C10 — column references resolve to exactly the source they were bound to
-/
namespace Pypika.C10
open Pypika

/-- the in-statement name of a source: its alias when it has one, otherwise its table name -/
theorem nsName_alias (t : TRef) (a : Str) (h : t.alias = some a) (ha : a ≠ []) : t.nsName = a := by
  cases a with
  | nil => exact absurd rfl ha
  | cons x xs => simp [TRef.nsName, h, truthyStr]

theorem nsName_name (t : TRef) (n : Str) (h : t.alias = none) (hn : t.name = some n) : t.nsName = n := by
  simp [TRef.nsName, h, hn, truthyStr]

/-- **qualification**: whenever the statement asks for namespaces, a column bound to a source is
    rendered `qualifier.column`, the qualifier being the source's in-statement name -/
theorem field_qualified (c : Ctx) (n : Str) (t : TRef) (h : c.withNamespace = true) (hw : c.withAlias = false) :
    render c (.field n none (some t)) = [.ident c.q t.nsName, kws ".", .ident c.q n] := by
  rw [render_field]; simp [needsNs, h, hw, opt]

/-- **a column of an aliased source is qualified by the alias in every statement**, namespaces asked for or not -/
theorem alias_always (c : Ctx) (n a : Str) (t : TRef) (h : t.alias = some a) (ha : a ≠ []) (hw : c.withAlias = false) :
    render c (.field n none (some t)) = [.ident c.q a, kws ".", .ident c.q n] := by
  have hn : t.nsName = a := nsName_alias t a h ha
  have ht : truthyStr t.alias = true := by
    cases a with
    | nil => exact absurd rfl ha
    | cons x xs => simp [h, truthyStr]
  rw [render_field]; simp [needsNs, ht, hw, opt, hn]

/-- an unbound column, or an un-aliased source in a single-source statement, is written bare -/
theorem field_bare (c : Ctx) (n : Str) (t : TRef) (h : c.withNamespace = false) (ha : t.alias = none) (hw : c.withAlias = false) :
    render c (.field n none (some t)) = [.ident c.q n] := by
  rw [render_field]; simp [needsNs, h, ha, hw, opt, truthyStr]

/-- the five situations in which a statement qualifies its columns -/
theorem wantsNamespace_iff (fl : QFlags) (hasJoins : Bool) (nFrom : Nat) (fromQ hasUpdate : Bool) :
    wantsNamespace fl hasJoins nFrom fromQ hasUpdate = true ↔
      (hasJoins = true ∨ 1 < nFrom ∨ fromQ = true ∨ fl.foreignTable = true ∨ (hasUpdate = true ∧ 0 < nFrom)) := by
  simp [wantsNamespace, Bool.or_eq_true, Bool.and_eq_true, or_assoc]

/-- that decision is what every clause of the statement is rendered with -/
theorem statement_namespace (c : Ctx) (fl : QFlags) (ns : Bool) : (queryCtx c fl ns).withNamespace = ns := rfl

/-- schema / database prefixes are written outermost first, on the table itself -/
theorem schema_outermost_first (q : Option Char) (a b : Str) (rest : List Str) :
    schemaDoc q (a :: b :: rest) = .ident q a :: kws "." :: schemaDoc q (b :: rest) := rfl

/-! ### invented sub-query names -/

/-- the name invented for the k-th un-aliased sub-query of a statement -/
def sqName (k : Nat) : Str := 's' :: 'q' :: natText k

/-- `from_` / `join` on a statement whose counter is `count`, for a sub-query carrying its own counter `sub`:
    the name given and the new counter -/
def tag (count sub : Nat) : Str × Nat := (sqName (max count sub), max count sub + 1)

def tagAll : Nat → List Nat → List Str
  | _, [] => []
  | count, sub :: rest => (tag count sub).1 :: tagAll (tag count sub).2 rest

theorem sqName_inj {a b : Nat} (h : sqName a = sqName b) : a = b := by
  have : natText a = natText b := by simpa [sqName] using h
  exact C06.natStr_inj this

theorem tagAll_ge (count : Nat) (subs : List Nat) : ∀ n ∈ tagAll count subs, ∃ k, count ≤ k ∧ n = sqName k := by
  induction subs generalizing count with
  | nil => intro n hn; cases hn
  | cons s rest ih =>
    intro n hn
    simp only [tagAll, tag, List.mem_cons] at hn
    rcases hn with h | h
    · exact ⟨max count s, Nat.le_max_left _ _, h⟩
    · obtain ⟨k, hk, e⟩ := ih _ n h
      exact ⟨k, by omega, e⟩

/-- **names invented within one statement are pairwise distinct**, whatever counters the sub-queries carry -/
theorem invented_names_distinct (count : Nat) (subs : List Nat) : (tagAll count subs).Nodup := by
  induction subs generalizing count with
  | nil => simp [tagAll]
  | cons s rest ih =>
    simp only [tagAll, tag, List.nodup_cons]
    refine ⟨?_, ih _⟩
    intro hmem
    obtain ⟨k, hk, e⟩ := tagAll_ge _ _ _ hmem
    have := sqName_inj e
    omega

/-- non-vacuity -/
example : tagAll 0 [0, 0, 2, 0] = [sqName 0, sqName 1, sqName 2, sqName 3] := by decide

end Pypika.C10
