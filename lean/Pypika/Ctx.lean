import Pypika.Syntax
/-!
# Rendering context: the `**kwargs` dict threaded through every `get_sql`
-/
namespace Pypika

/-- `quote_char`: absent from kwargs, or passed (possibly as `None`).  The distinction matters
    for `BasicCriterion.get_sql(quote_char='"')`, whose default applies only when the key is absent. -/
inductive QuoteArg
  | absent
  | given (q : Option Char)
  deriving DecidableEq, Repr, Inhabited

structure Ctx where
  quote : QuoteArg := .absent
  /-- `secondary_quote_char`; `none` = key absent (ValueWrapper / JSON default to `'`) -/
  secondary : Option (Option Char) := none
  /-- `alias_quote_char`, `as_keyword`, `dialect`: `none` = key absent (matters for `setdefault`) -/
  aliasQuote : Option (Option Char) := none
  asKeyword : Option Bool := none
  dialect : Option (Option Dialect) := none
  withAlias : Bool := false
  withNamespace : Bool := false
  subquery : Bool := false
  subcriterion : Bool := false
  groupbyAlias : Bool := true
  groupbyAliasSet : Bool := false      -- the key `groupby_alias` is present in kwargs (set by an enclosing statement / the caller)
  /-- a parameter collector is present in kwargs -/
  param : Bool := false
  deriving DecidableEq, Repr, Inhabited

namespace Ctx
/-- the identifier quote in effect (`kwargs.get("quote_char")`) -/
def q (c : Ctx) : Option Char := match c.quote with | .absent => none | .given x => x
/-- the literal quote in effect (default `'` when the key is absent) -/
def sq (c : Ctx) : Option Char := match c.secondary with | none => some '\'' | some x => x
def aq (c : Ctx) : Option Char := match c.aliasQuote with | none => none | some x => x
def asKw (c : Ctx) : Bool := match c.asKeyword with | none => false | some b => b
def dia (c : Ctx) : Option Dialect := match c.dialect with | none => none | some d => d

/-- kwargs of `str(term)` -/
def ofStr : Ctx := { quote := .given (some '"'), secondary := some (some '\'') }

/-- kwargs that `Function.get_sql` re-packs for its arguments / special clauses:
    only `with_namespace`, `quote_char`, `dialect` survive -/
def fnBase (c : Ctx) : Ctx :=
  { quote := .given c.q, withNamespace := c.withNamespace, dialect := some c.dia }
def fnArg (c : Ctx) : Ctx := { c.fnBase with withAlias := false, subquery := true }
end Ctx

/-- `format_alias_sql(sql, alias, quote_char=q, **kwargs)` — the alias suffix -/
def aliasDoc (c : Ctx) (q : Option Char) : Option Str → Doc
  | none => []
  | some a => [.aliasDef (orQ c.aq q) c.asKw a]

end Pypika
