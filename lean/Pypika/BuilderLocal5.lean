import Pypika.BuilderLocal
/-! Locality of the builder calls, part 5 -/
namespace Pypika.B
open Pypika
set_option linter.unusedSimpArgs false

set_option maxHeartbeats 1600000 in
theorem local_join : ∀ item how kind, LocalAt (.join item how kind) := by
  intro item how kind s x w hr hw
  have hm : w ∉ [Slot.r_from_, .r_updateTable, .r_withs, .r_joins, .h_subCount] := by
    simp only [reads, writes, List.mem_cons, not_or] at hr hw ⊢; simp_all
  have hj : ∀ i t, joinMissing (copySlot w x s).r i t = joinMissing s.r i t :=
    fun i t => joinMissing_local s x i t w (by simp only [List.mem_cons, not_or] at hm ⊢; simp_all)
  have ht : ∀ t, tableInBase (copySlot w x s).r t = tableInBase s.r t :=
    fun t => tableInBase_local s x t w (by simp only [List.mem_cons, not_or] at hm ⊢; simp_all)
  have hf : (copySlot w x s).r.from_ = s.r.from_ := by cases w <;> first | listed [] hm | rfl
  have hc : (copySlot w x s).subCount = s.subCount := by cases w <;> first | listed [] hm | rfl
  simp only [step, hj, ht, hf, hc]
  cases w
  all_goals first
    | listed [] hm
    | local_tac [copySlot]

end Pypika.B
