import Pypika.Whole
/-!
# Whole-tree invariant no. 2: string literals

Every string-literal piece in the rendering of any term / statement is delimited by the standard quote `'`
(`secondary_quote_char`), at every depth, whenever the context's literal quote is `'` (the default of every query
class; `Function.get_sql` drops the key for its arguments, which re-defaults it to `'`).  Same functional induction
as `Whole.lean`, different piece predicate and context invariant.
-/
namespace Pypika.WholeStr
open Pypika Pypika.Whole

/-- a string-literal piece is delimited by `'` -/
def strQ : Piece → Prop
  | .str _ q' _ => q' = some '\''
  | _ => True

/-! ### leaves -/
section leaves

@[simp] theorem strQ_kw (s : Str) : strQ (.kw s) := trivial
@[simp] theorem strQ_kws (s : String) : strQ (kws s) := trivial
@[simp] theorem strQ_raw (s : Str) : strQ (.raw s) := trivial
@[simp] theorem strQ_err (s : Str) : strQ (.err s) := trivial
@[simp] theorem strQ_num (b : Bool) (s : Str) : strQ (.num b s) := trivial
@[simp] theorem strQ_str (b : Bool) (x : Option Char) (s : Str) : strQ (.str b x s) ↔ x = some '\'' := Iff.rfl
@[simp] theorem strQ_aliasDef (x : Option Char) (b : Bool) (s : Str) : strQ (.aliasDef x b s) := trivial
@[simp] theorem strQ_aliasRef (x : Option Char) (s : Str) : strQ (.aliasRef x s) := trivial
@[simp] theorem strQ_ident (x : Option Char) (s : Str) : strQ (.ident x s) := trivial

@[simp] theorem All_K (s : String) : All strQ (K s) := by simp [K]
@[simp] theorem All_aliasDoc (c : Ctx) (x : Option Char) (a : Option Str) : All strQ (aliasDoc c x a) := by
  cases a <;> simp [aliasDoc]
@[simp] theorem All_opt_iff (b : Bool) (d : Doc) : All strQ (opt b d) ↔ (b = true → All strQ d) := by
  cases b <;> simp [opt]
@[simp] theorem AllL_opt'_iff (b : Bool) (d : Doc) : AllL strQ (opt' b d) ↔ (b = true → All strQ d) := by
  cases b <;> simp [opt']
@[simp] theorem All_parens (d : Doc) : All strQ (parens d) ↔ All strQ d := by simp [parens]
@[simp] theorem All_parensIf (b : Bool) (d : Doc) : All strQ (parensIf b d) ↔ All strQ d := by
  cases b <;> simp [parensIf]
@[simp] theorem All_valdoc (c : Ctx) (v : Val) (h : c.sq = some '\'') : All strQ (v.doc c) := by cases v <;> simp [Val.doc, h]
@[simp] theorem All_schemaDoc (q : Option Char) (l : List Str) : All strQ (schemaDoc q l) := by
  induction l with
  | nil => simp [schemaDoc]
  | cons s rest ih => cases rest <;> simp_all [schemaDoc]
@[simp] theorem All_trefdoc (c : Ctx) (t : TRef) : All strQ (t.doc c) := by
  unfold TRef.doc; split <;> simp
@[simp] theorem All_edge (e : Edge) : All strQ e.doc := by cases e with
  | preceding n => cases n <;> simp [Edge.doc]
  | following n => cases n <;> simp [Edge.doc]
  | current => simp [Edge.doc]
@[simp] theorem All_frame (f : Frame) : All strQ f.doc := by unfold Frame.doc; split <;> simp
@[simp] theorem All_limitDoc (b : Bool) (n : Nat) : All strQ (limitDoc b n) := by cases b <;> simp [limitDoc]
@[simp] theorem All_offsetDoc (b : Bool) (n : Nat) : All strQ (offsetDoc b n) := by cases b <;> simp [offsetDoc]
@[simp] theorem All_howDoc (h : Str) : All strQ (howDoc h) := by unfold howDoc; split <;> simp
@[simp] theorem All_insertHead (fl : QFlags) : All strQ (insertHead fl) := by
  unfold insertHead; split <;> (try split) <;> simp
theorem All_names (q : Option Char) (xs : List Str) : AllL strQ (xs.map fun n => [Piece.ident q n]) := by
  induction xs with
  | nil => simp
  | cons x xs ih => simp [ih]

@[simp] theorem joinOK (sep : String) (ds : List Doc) : All strQ (joinDocs (K sep) ds) ↔ AllL strQ ds :=
  All_joinDocs_iff _ _ (All_K sep)
@[simp] theorem All_setopPaginate (l o : Option Nat) : All strQ (setopPaginate l o) := by
  unfold setopPaginate; repeat' (split <;> try simp)
@[simp] theorem All_paginate (cls : QClass) (l o : Option Nat) : All strQ (paginate cls l o) := by
  unfold paginate; repeat' (split <;> try simp)
@[simp] theorem All_indexDoc (pre : String) (q : Option Char) (xs : List Str) : All strQ (indexDoc pre q xs) := by
  unfold indexDoc; split <;> simp [All_names]
@[simp] theorem All_forUpdateDoc (fl : QFlags) (q : Option Char) : All strQ (forUpdateDoc fl q) := by
  unfold forUpdateDoc; repeat' (split <;> try simp [All_names])
@[simp] theorem All_limitByDoc (fl : QFlags) (d : Doc) (h : All strQ d) : All strQ (limitByDoc fl d) := by
  unfold limitByDoc; repeat' (split <;> try simp [h])
@[simp] theorem All_conflictGuard (a b c : Bool) (d : Doc) (h : All strQ d) : All strQ (conflictGuard a b c d) := by
  unfold conflictGuard
  split
  · split
    · exact All_nil
    · exact (All_cons _ _).mpr ⟨trivial, All_nil⟩
  · split
    · exact (All_cons _ _).mpr ⟨trivial, All_nil⟩
    · exact h
@[simp] theorem All_fromClause (fl : QFlags) (d : Doc) (h : All strQ d) : All strQ (fromClause fl d) := by
  unfold fromClause; repeat' (split <;> try simp [h])
@[simp] theorem All_selectPrefix (fl : QFlags) (b : Bool) (d : Doc) (h : All strQ d) : All strQ (selectPrefix fl b d) := by
  unfold selectPrefix; repeat' (split <;> try simp [h])
theorem All_splitDoc (n : Nat) (d : Doc) (h : All strQ d) :
    All strQ (splitDoc n d).1 ∧ All strQ (splitDoc n d).2 := by
  induction d generalizing n with
  | nil => simp [splitDoc]
  | cons p ps ih =>
    have hp := (All_cons p ps).mp h
    unfold splitDoc
    split
    · simpa using hp
    · split
      · have := ih (n - p.text.length) hp.2
        simp [hp.1, this.1, this.2]
      · simp [hp.2]
@[simp] theorem All_verticaSplice (hint : Str) (d : Doc) (h : All strQ d) : All strQ (verticaSplice hint d) := by
  simp [verticaSplice, (All_splitDoc _ d h).1, (All_splitDoc _ d h).2]

@[simp] theorem All_hinted (fl : QFlags) (d : Doc) (h : All strQ d) : All strQ (hinted fl d) := by
  unfold hinted; split
  · split
    · exact All_verticaSplice _ d h
    · exact h
  · exact h

end leaves

/-! ### the literal quote survives every context transformation -/
/-- `kwargs.get("secondary_quote_char")` with the default of `ValueWrapper.get_sql` -/
def sqOf : Option (Option Char) → Option Char
  | none => some '\''
  | some x => x
/-- simp normal form: the literal quote is a function of the `secondary` field alone, so every `{ c with … }` that
    leaves that field alone has the same literal quote (projections of structure updates reduce by `simp`) -/
@[simp] theorem sq_eq (c : Ctx) : c.sq = sqOf c.secondary := by cases c; rename_i s _ _ _ _ _ _ _ _ _; cases s <;> rfl
@[simp] theorem sqOf_none : sqOf none = some '\'' := rfl
@[simp] theorem sqOf_some (x : Option Char) : sqOf (some x) = x := rfl
theorem setDefaults_sq {c : Ctx} (h : c.sq = some '\'') (cls : QClass) (d : Option Dialect) (a : Bool) :
    (setDefaults c cls d a).sq = some '\'' := by
  cases c with
  | mk quote secondary aliasQuote asKeyword dialect wa wn sq sc ga pm =>
    cases secondary <;> simp_all [setDefaults]
theorem dialectCtx_sq {c : Ctx} (h : c.sq = some '\'') (fl : QFlags) : (dialectCtx c fl).sq = some '\'' := by
  unfold dialectCtx; split <;> exact setDefaults_sq (by simpa using h) _ _ _
theorem queryCtx_sq {c : Ctx} (h : c.sq = some '\'') (fl : QFlags) (ns : Bool) : (queryCtx c fl ns).sq = some '\'' := by
  have := dialectCtx_sq h fl
  simpa [queryCtx] using this
theorem setopCtx_sq {c : Ctx} (h : c.sq = some '\'') (fl : QFlags) : (setopCtx c fl).sq = some '\'' := by
  have := setDefaults_sq h fl.cls fl.dialect fl.asKeyword
  simpa [setopCtx] using this
@[simp] theorem fnBase_secondary (c : Ctx) : c.fnBase.secondary = none := rfl
@[simp] theorem fnArg_secondary (c : Ctx) : c.fnArg.secondary = none := rfl

/-- the statement carried through the induction: for every context whose identifier quote is `q` -/
def QD (f : Ctx → Doc) : Prop := ∀ k, k.sq = some '\'' → All strQ (f k)
def QL (f : Ctx → List Doc) : Prop := ∀ k, k.sq = some '\'' → AllL strQ (f k)
def QP (f : Ctx → Ctx → List Doc) : Prop :=
  ∀ kf kv, kf.sq = some '\'' → kv.sq = some '\'' → AllL strQ (f kf kv)

set_option maxHeartbeats 2000000 in
/-- one unfolding of `renderQuery`: if every part satisfies the invariant in every context, so does the statement -/
theorem query_step (fl : QFlags) (from_ : List Src) (withs : List (Str × Src)) (selects : List Term)
    (insertTable updateTable : Option Src) (columns : List Term) (values : List (List Term))
    (wheres prewheres havings : Option Term) (groupbys : List Term) (orderbys : List (Term × Option Ord))
    (joins : List Join) (updates : List (Term × Term)) (usingSrcs : List Src) (dup : List (Term × Term))
    (rets ocf : List Term) (ocdu : List (Term × Option Term)) (ocw ocduw : Option Term) (don lbt : List Term)
    (h_from : QL (renderSrcL · from_)) (h_withs : QL (renderWiths · withs)) (h_sel : QL (renderL · selects))
    (h_ins : QD (renderOptSrc · insertTable)) (h_upd : QD (renderOptSrc · updateTable))
    (h_cols : QL (renderL · columns)) (h_vals : QL (renderRows · values))
    (h_wh : QD (renderOpt · wheres)) (h_pre : QD (renderOpt · prewheres)) (h_hav : QD (renderOpt · havings))
    (h_grp : ∀ sel ua aq, QL (renderGroupBy · sel ua aq groupbys)) (h_ord : ∀ sel aq, QL (renderOrderBy · sel aq orderbys))
    (h_joins : QL (renderJoins · joins)) (h_updates : QP (renderPairs · · updates)) (h_using : QL (renderSrcL · usingSrcs))
    (h_dup : QP (renderPairs · · dup)) (h_rets : QL (renderL · rets)) (h_ocf : QL (renderL · ocf))
    (h_ocdu : QL (renderConflictUpdates · ocdu)) (h_ocw : QD (renderOpt · ocw)) (h_ocduw : QD (renderOpt · ocduw))
    (h_don : QL (renderL · don)) (h_lbt : QL (renderL · lbt)) :
    QD (renderQuery · (.mk fl from_ withs selects insertTable updateTable columns values wheres prewheres havings
      groupbys orderbys joins updates usingSrcs dup rets ocf ocdu ocw ocduw don lbt)) := by
  simp only [QD, QL, QP] at *
  intro k hq
  rw [renderQuery_eq_1]
  have hk : ∀ ns, (queryCtx k fl ns).sq = some '\'' := fun ns => queryCtx_sq hq fl ns
  have hd : (dialectCtx k fl).sq = some '\'' := dialectCtx_sq hq fl
  · extract_lets k' kd withDoc selTerms selectDoc fromDoc joinsDoc whereDoc head body core dupDoc conflictDoc returningDoc
    have hk' : k'.sq = some '\'' := hk _
    have hkd : kd.sq = some '\'' := hd
    have h1 : All strQ withDoc := by simp_all [withDoc]
    have h2 : All strQ selTerms := by simp_all [selTerms]
    have h3 : All strQ selectDoc := by simp_all [selectDoc]
    have h4 : All strQ fromDoc := by simp_all [fromDoc]
    have h5 : All strQ joinsDoc := by simp_all [joinsDoc]
    have h6 : All strQ whereDoc := by simp_all [whereDoc]
    clear_value withDoc selTerms selectDoc fromDoc joinsDoc whereDoc
    have h7 : All strQ head := by simp_all [head]
    clear_value head
    have h8 : All strQ body := by simp_all [body, -Bool.forall_bool]
    clear_value body
    have h9 : All strQ core := by simp_all [core] <;> (repeat' (split <;> try simp_all))
    clear_value core
    have h10 : All strQ dupDoc := by simp_all [dupDoc]
    have h11 : All strQ conflictDoc := by simp_all [conflictDoc]
    have h12 : All strQ returningDoc := by simp_all [returningDoc]
    clear_value dupDoc conflictDoc returningDoc
    simp_all <;> (repeat' (split <;> try simp_all))

set_option maxHeartbeats 400000 in
theorem str_uniform_all :
    (∀ (_ : Ctx) t, QD (render · t)) ∧ (∀ (_ : Ctx) s, QD (renderSetOp · s)) ∧
    (∀ (_ : Ctx) (_ : List Term) (_ : Option Char) obs, ∀ sel aq, QL (renderOrderBy · sel aq obs)) ∧
    (∀ (_ : Ctx) (_ : Nat) ops, ∀ n, QD (renderOps · n ops)) ∧
    (∀ (_ : Ctx) qu, QD (renderQuery · qu)) ∧ (∀ (_ : Ctx) l, QL (renderConflictUpdates · l)) ∧
    (∀ (_ : Ctx) (_ : List Term) (_ : Bool) (_ : Option Char) ts, ∀ sel ua aq, QL (renderGroupBy · sel ua aq ts)) ∧
    (∀ (_ : Ctx) rows, QL (renderRows · rows)) ∧
    (∀ (_ : Ctx) l, QL (renderL · l)) ∧
    (∀ (_ _ : Ctx) ps, QP (renderPairs · · ps)) ∧
    (∀ (_ : Ctx) s, QD (renderOptSrc · s)) ∧ (∀ (_ : Ctx) s, QD (renderSrc · s)) ∧ (∀ (_ : Ctx) t, QD (renderOpt · t)) ∧
    (∀ (_ : Ctx) js, QL (renderJoins · js)) ∧ (∀ (_ : Ctx) j, QD (renderJoin · j)) ∧ (∀ (_ : Ctx) l, QL (renderSrcL · l)) ∧
    (∀ (_ : Ctx) ws, QL (renderWiths · ws)) ∧ (∀ (_ : Ctx) obs, QL (renderOrd · obs)) ∧ (∀ (_ : Ctx) ws, QL (renderWhens · ws)) := by
  apply render.mutual_induct
    (motive_1 := fun _ t => QD (render · t))
    (motive_2 := fun _ s => QD (renderSetOp · s))
    (motive_3 := fun _ _ _ obs => ∀ sel aq, QL (renderOrderBy · sel aq obs))
    (motive_4 := fun _ _ ops => ∀ n, QD (renderOps · n ops))
    (motive_5 := fun _ qu => QD (renderQuery · qu))
    (motive_6 := fun _ l => QL (renderConflictUpdates · l))
    (motive_7 := fun _ _ _ _ ts => ∀ sel ua aq, QL (renderGroupBy · sel ua aq ts))
    (motive_8 := fun _ rows => QL (renderRows · rows))
    (motive_9 := fun _ l => QL (renderL · l))
    (motive_10 := fun _ _ ps => QP (renderPairs · · ps))
    (motive_11 := fun _ s => QD (renderOptSrc · s))
    (motive_12 := fun _ s => QD (renderSrc · s))
    (motive_13 := fun _ t => QD (renderOpt · t))
    (motive_14 := fun _ js => QL (renderJoins · js))
    (motive_15 := fun _ j => QD (renderJoin · j))
    (motive_16 := fun _ l => QL (renderSrcL · l))
    (motive_17 := fun _ ws => QL (renderWiths · ws))
    (motive_18 := fun _ obs => QL (renderOrd · obs))
    (motive_19 := fun _ ws => QL (renderWhens · ws))
  case case41 => intros; apply query_step <;> assumption
  case case42 => intros; apply query_step <;> assumption
  case case43 => intros; apply query_step <;> assumption
  case case44 => intros; apply query_step <;> assumption
  case case45 => intros; apply query_step <;> assumption
  case case46 => intros; apply query_step <;> assumption
  case case47 => intros; apply query_step <;> assumption
  case case48 => intros; apply query_step <;> assumption
  all_goals (
    intros
    simp only [QD, QL, QP] at *
    intros
    simp only [render_field, render_star, render_val, render_wrapped, render_lit, render_neg, render_arith, render_basic, render_complex, render_not, render_isin, render_between, render_period, render_isnull, render_notnull, render_bitand, render_exists_, render_all, render_tuple, render_array, render_case, render_func, render_param, render_interval, render_json, render_pseudo, render_atTz, render_values, render_sub, render_setop, render_empty, render_index, renderL_eq_1, renderL_eq_2, renderOpt_eq_1, renderOpt_eq_2, renderWhens_eq_1, renderWhens_eq_2, renderOrd_eq_1, renderOrd_eq_2, renderOrderBy_eq_1, renderOrderBy_eq_2, renderGroupBy_eq_1, renderGroupBy_eq_2, renderRows_eq_1, renderRows_eq_2, renderPairs_eq_1, renderPairs_eq_2, renderConflictUpdates_eq_1, renderConflictUpdates_eq_2, renderConflictUpdates_eq_3, renderSrc_eq_1, renderSrc_eq_2, renderSrc_eq_3, renderSrc_eq_4, renderOptSrc_eq_1, renderOptSrc_eq_2, renderSrcL_eq_1, renderSrcL_eq_2, renderWiths_eq_1, renderWiths_eq_2, renderJoin_eq_1, renderJoin_eq_2, renderJoin_eq_3, renderJoins_eq_1, renderJoins_eq_2, renderQuery_eq_1, renderSetOp_eq_1, renderOps_eq_1, renderOps_eq_2]
    rename_i hq)
  case case1 => simp_all
  case case2 => simp_all
  case case3 => simp_all
  case case4 => simp_all
  case case5 => rename_i ih k; simp_all; exact ih _ (by simp)
  case case6 => simp_all
  case case7 => simp_all
  case case8 => simp_all
  case case9 => simp_all
  case case10 => simp_all
  case case11 => simp_all
  case case12 => simp_all
  case case13 => simp_all
  case case14 => simp_all
  case case15 => simp_all
  case case16 => simp_all
  case case17 => simp_all
  case case18 => simp_all
  case case19 => simp_all
  case case20 => simp_all
  case case21 => simp_all
  case case22 => simp_all
  case case24 => simp_all
  case case25 => simp_all
  case case26 => simp_all
  case case27 => simp_all
  case case28 => simp_all
  case case29 => simp_all
  case case30 => simp_all
  case case31 => simp_all
  case case32 => simp_all
  case case33 => simp_all
  case case34 => simp_all
  case case35 => simp_all
  case case36 => simp_all
  case case37 => simp_all
  case case38 => simp_all
  case case40 => simp_all
  case case50 => simp_all
  case case52 => simp_all
  case case53 => simp_all
  case case54 => simp_all
  case case55 => simp_all
  case case56 => simp_all
  case case57 => simp_all
  case case58 => simp_all
  case case59 => simp_all
  case case60 => simp_all
  case case62 => simp_all
  case case64 => simp_all
  case case65 => simp_all
  case case66 => simp_all
  case case67 => simp_all
  case case68 => simp_all
  case case69 => simp_all
  case case70 => simp_all
  case case71 => simp_all
  case case72 => simp_all
  case case73 => simp_all
  case case74 => simp_all
  case case75 => simp_all
  case case76 => simp_all
  case case77 => simp_all
  case case23 => simp_all <;> (repeat' (split <;> try simp_all)) <;> (repeat' (first | apply And.intro | intro _)) <;> (first | assumption | (apply_assumption <;> simp))
  case case39 => simp_all <;> (repeat' (split <;> try simp_all))
  case case61 => simp_all <;> (repeat' (split <;> try simp_all))
  case case63 => simp_all <;> (repeat' (split <;> try simp_all))
  case case49 =>
    have hs := fun fl => setopCtx_sq (c := _) (by simpa using hq) fl
    simp only [sq_eq] at hs
    simp_all <;> (repeat' (split <;> try simp_all)) <;>
      (repeat' (first | apply And.intro | intro _)) <;> (first | assumption | exact hs _ | (apply_assumption <;> first | exact hs _ | simp))
  case case51 => rename_i ua _ _ ; cases ua <;> simp_all
  case case78 =>
    rename_i ihq ihr _ _
    refine (All_append _ _).mpr ⟨?_, ihr _ _ hq⟩
    split
    · exact (All_append _ _).mpr ⟨All_filter _ _ (ihq _ hq), (All_cons _ _).mpr ⟨trivial, All_nil⟩⟩
    · exact (All_cons _ _).mpr ⟨trivial, (All_cons _ _).mpr ⟨trivial, (All_cons _ _).mpr ⟨trivial, ihq _ hq⟩⟩⟩

end Pypika.WholeStr

namespace Pypika.WholeStr
open Pypika Pypika.Whole

/-- **C03 / C07, whole tree.**  When the literal quote in effect is `'` (every query class's default; also what
    `str(term)` passes), *every* string-literal piece in the rendering of *any* term — at any depth, through functions,
    CASE, criteria, nested statements of any class, set operations, DML clauses, JSON documents — is delimited by `'`;
    `flatten` doubles exactly that character inside the payload (`C03.str_piece_roundtrip`). -/
theorem str_quote_uniform (c : Ctx) (t : Term) (h : c.sq = some '\'') :
    ∀ p ∈ render c t, ∀ b q' s, p = .str b q' s → q' = some '\'' := by
  intro p hp b q' s e
  have := (str_uniform_all.1 c t c h).h p hp
  subst e; exact this

theorem str_quote_uniform_query (c : Ctx) (qu : Query) (h : c.sq = some '\'') :
    ∀ p ∈ renderQuery c qu, ∀ b q' s, p = .str b q' s → q' = some '\'' := by
  intro p hp b q' s e
  have := (str_uniform_all.2.2.2.2.1 c qu c h).h p hp
  subst e; exact this

/-- a top-level statement of any class establishes that context when the caller passed no literal quote -/
theorem toplevel_sq (c : Ctx) (fl : QFlags) (ns : Bool) (h : c.secondary = none) : (queryCtx c fl ns).sq = some '\'' := by
  apply queryCtx_sq
  simp [Ctx.sq, h]

end Pypika.WholeStr
