import Pypika.BuilderSlotsComm
/-!
# Frame theorem of the concrete builder: a call writes only the slots listed for it

`writes cls call` is the set of slots the method may write (for `where` it depends on the class: PostgreSQL's override also
writes the two ON CONFLICT predicates).  `step_frame`: after erasing those slots, the states before and after an accepted
call are equal — nothing else changed.  `Agree/BuilderWrites.lean` checks `writes` against the attribute write sets that
`harness/effects.py` extracts from the source of the real methods.
-/
namespace Pypika.B
open Pypika

def writes (cls : QClass) : Call → List Slot
  | .from_ .. | .fromStr _ => [.r_from_, .h_subCount]
  | .with_ .. => [.r_withs]
  | .into _ => [.r_insertTable, .f_selectInto]
  | .select _ => [.r_selects, .h_selectStar, .h_starTables]
  | .delete => [.f_deleteFrom]
  | .update _ => [.r_updateTable]
  | .columns _ => [.r_columns]
  | .insert _ | .replace _ => [.r_values, .f_replace_]
  | .insertOrReplace _ => [.r_values, .f_replace_, .f_insertOrReplace]
  | .forceIndex _ => [.f_forceIndexes]
  | .useIndex _ => [.f_useIndexes]
  | .distinct => [.f_distinct]
  | .forUpdate => [.f_forUpdate]
  | .ignore => [.f_ignore]
  | .withTotals => [.f_withTotals]
  | .prewhere _ => [.f_foreignTable, .r_prewheres]
  | .where_ _ =>
      if cls = .postgresql then [.f_foreignTable, .r_wheres, .r_onConflictDoUpdateWheres, .r_onConflictWheres]
      else [.f_foreignTable, .r_wheres]
  | .having _ => [.r_havings]
  | .groupby _ => [.r_groupbys]
  | .rollup .. => [.f_mysqlRollup, .r_groupbys]
  | .orderby .. => [.r_orderbys]
  | .join .. => [.r_joins, .h_subCount]
  | .limit _ => [.f_limit]
  | .offset _ => [.f_offset]
  | .slice .. => [.f_offset, .f_limit]
  | .set .. => [.r_updates]
  | .forUpdateEx .. => [.f_forUpdate, .f_forUpdateSkipLocked, .f_forUpdateNowait, .f_forUpdateOf]
  | .onDuplicateKeyUpdate .. => [.r_duplicateUpdates]
  | .onDuplicateKeyIgnore => [.f_ignoreDuplicates]
  | .modifier _ => [.f_modifiers]
  | .distinctOn _ => [.r_distinctOn]
  | .onConflict _ => [.f_onConflict, .r_onConflictFields]
  | .doNothing => [.f_onConflictDoNothing]
  | .doUpdate .. => [.r_onConflictDoUpdates]
  | .using _ => [.r_usingSrcs]
  | .returning _ => [.r_returns, .h_returnStar]
  | .top .. => [.f_topPercent, .f_topWithTies, .f_top]
  | .final => [.f_final]
  | .sample .. => [.f_sample, .f_sampleOffset]
  | .limitBy .. => [.f_limitBy, .r_limitByTerms]
  | .hint _ => [.f_hint]

/-- `a ≈[ws] b`: equal after erasing the slots `ws` -/
def SameOff (ws : List Slot) (a b : St) : Prop := eraseAll ws a = eraseAll ws b

theorem SameOff.refl (ws : List Slot) (a : St) : SameOff ws a a := rfl
theorem SameOff.trans {ws : List Slot} {a b c : St} (h1 : SameOff ws a b) (h2 : SameOff ws b c) : SameOff ws a c :=
  Eq.trans h1 h2

/-! the two recursive helpers -/

theorem ok_inj {a b : St} (h : (Except.ok a : R) = .ok b) : a = b := by injection h

theorem selectField_frame (s : St) (t : Term) (tbl : Option TRef) (b : Bool) :
    SameOff [.r_selects, .h_selectStar, .h_starTables] (selectField s t tbl b) s := by
  unfold selectField
  split
  · rfl
  split
  · rfl
  split <;> rfl

theorem selectOne_frame (s s' : St) (a : Arg) (h : selectOne s a = .ok s') :
    SameOff [.r_selects, .h_selectStar, .h_starTables] s' s := by
  unfold selectOne at h
  split at h
  · cases ok_inj h; exact selectField_frame ..
  · cases ok_inj h; exact selectField_frame ..
  · cases ok_inj h; rfl
  · split at h
    · simp [raise] at h
    · split at h
      · cases ok_inj h; rfl
      · cases ok_inj h; exact selectField_frame ..
  · cases ok_inj h; rfl

theorem selectAll_frame (args : List Arg) : ∀ (s s' : St), selectAll s args = .ok s' →
    SameOff [.r_selects, .h_selectStar, .h_starTables] s' s := by
  induction args with
  | nil => intro s s' h; cases ok_inj h; rfl
  | cons a as ih =>
    intro s s' h
    unfold selectAll at h
    cases h1 : selectOne s a with
    | error e => simp [h1, bind, Except.bind] at h
    | ok s1 =>
      simp only [h1, bind, Except.bind] at h
      exact (ih s1 s' h).trans (selectOne_frame s s1 a h1)

theorem returnField_frame (s s' : St) (t : Term) (b : Bool) (h : returnField s t b = .ok s') :
    SameOff [.r_returns, .h_returnStar] s' s := by
  unfold returnField at h
  repeat' (split at h)
  all_goals first | (cases ok_inj h; rfl) | (simp [raise] at h; done)

theorem returnOther_frame (s s' : St) (t : Term) (h : returnOther s t = .ok s') :
    SameOff [.r_returns, .h_returnStar] s' s := by
  unfold returnOther at h
  repeat' (split at h)
  all_goals first | (cases ok_inj h; rfl) | (simp [raise] at h; done)

theorem returnOne_frame (s s' : St) (a : Arg × Bool) (h : returnOne s a = .ok s') :
    SameOff [.r_returns, .h_returnStar] s' s := by
  unfold returnOne at h
  repeat' (split at h)
  all_goals first
    | exact returnField_frame _ _ _ _ h
    | exact returnOther_frame _ _ _ h
    | (cases ok_inj h; rfl)
    | (simp [raise] at h; done)

theorem returnAll_frame (args : List (Arg × Bool)) : ∀ (s s' : St), returnAll s args = .ok s' →
    SameOff [.r_returns, .h_returnStar] s' s := by
  induction args with
  | nil => intro s s' h; cases ok_inj h; rfl
  | cons a as ih =>
    intro s s' h
    unfold returnAll at h
    cases h1 : returnOne s a with
    | error e => simp [h1, bind, Except.bind] at h
    | ok s1 =>
      simp only [h1, bind, Except.bind] at h
      exact (ih s1 s' h).trans (returnOne_frame s s1 a h1)

theorem applyTerms_frame (s s' : St) (args : List Arg) (h : applyTerms s args = .ok s') :
    SameOff [.r_values] s' s := by
  unfold applyTerms at h
  repeat' (first | split at h | (dsimp only at h; split at h))
  all_goals first | (cases ok_inj h; rfl) | (simp [raise] at h; done)

theorem SameOff.widen {ws : List Slot} (ws' : List Slot) {a b : St} (h : SameOff ws a b) : SameOff (ws ++ ws') a b := by
  unfold SameOff eraseAll at *
  rw [List.foldl_append, List.foldl_append, h]

theorem wherePath_pg (s : St) (c : Term) (h : wherePath s c = .pgDoUpdate ∨ wherePath s c = .pgConflict) :
    s.r.fl.cls = .postgresql := by
  unfold wherePath at h
  repeat' (split at h)
  all_goals first
    | (rcases h with h | h <;> cases h)
    | (rename_i hc; simp at hc; first | exact hc.1 | skip)
  all_goals simp_all

/-- **Frame theorem.**  An accepted call changes no slot outside `writes cls call`. -/
theorem step_frame (s s' : St) (c : Call) (h : step s c = .ok s') : SameOff (writes s.r.fl.cls c) s' s := by
  cases c
  case select args => exact selectAll_frame args s s' (by simpa only [step] using h)
  case returning args => exact returnAll_frame args s s' (by simpa only [step] using h)
  case insert args =>
    simp only [step] at h
    cases h1 : applyTerms s args with
    | error e => simp [h1, bind, Except.bind] at h
    | ok s1 =>
      simp only [h1, bind, Except.bind] at h
      cases ok_inj h
      exact SameOff.trans (b := s1) rfl ((applyTerms_frame s s1 args h1).widen [.f_replace_])
  case replace args =>
    simp only [step] at h
    cases h1 : applyTerms s args with
    | error e => simp [h1, bind, Except.bind] at h
    | ok s1 =>
      simp only [h1, bind, Except.bind] at h
      cases ok_inj h
      exact SameOff.trans (b := s1) rfl ((applyTerms_frame s s1 args h1).widen [.f_replace_])
  case insertOrReplace args =>
    simp only [step] at h
    cases h1 : applyTerms s args with
    | error e => simp [h1, bind, Except.bind] at h
    | ok s1 =>
      simp only [h1, bind, Except.bind] at h
      cases ok_inj h
      exact SameOff.trans (b := s1) rfl ((applyTerms_frame s s1 args h1).widen [.f_replace_, .f_insertOrReplace])
  case where_ c =>
    simp only [step] at h
    cases hp : wherePath s c with
    | skip => rw [hp] at h; cases ok_inj h; rfl
    | pgReject => rw [hp] at h; simp [whereApply, raise] at h
    | generic =>
      rw [hp] at h; cases ok_inj h
      simp only [writes]; split <;> rfl
    | pgDoUpdate =>
      rw [hp] at h; cases ok_inj h
      have hc := wherePath_pg s c (.inl hp)
      simp only [writes, hc, if_true]; rfl
    | pgConflict =>
      rw [hp] at h; cases ok_inj h
      have hc := wherePath_pg s c (.inr hp)
      simp only [writes, hc, if_true]; rfl
  all_goals
    simp only [step] at h
    repeat' (first | split at h | (dsimp only at h; split at h))
    all_goals first | (cases ok_inj h; rfl) | (simp [raise] at h; done) | (cases h; done)

/-! ## Runs of calls -/

theorem eraseSlot_comm (w1 w2 : Slot) (s : St) : eraseSlot w1 (eraseSlot w2 s) = eraseSlot w2 (eraseSlot w1 s) := by
  by_cases h : w1 = w2
  · subst h; rfl
  · simp only [eraseSlot_eq]; exact copySlot_comm w1 w2 h _ _ _

theorem eraseSlot_eraseAll (w : Slot) (ws : List Slot) (s : St) :
    eraseSlot w (eraseAll ws s) = eraseAll ws (eraseSlot w s) := by
  induction ws generalizing s with
  | nil => rfl
  | cons x xs ih =>
    simp only [eraseAll, List.foldl_cons] at ih ⊢
    rw [ih, eraseSlot_comm]

theorem SameOff.cons {ws : List Slot} (w : Slot) {a b : St} (h : SameOff ws a b) : SameOff (w :: ws) a b := by
  unfold SameOff at *
  show eraseAll ws (eraseSlot w a) = eraseAll ws (eraseSlot w b)
  rw [← eraseSlot_eraseAll, ← eraseSlot_eraseAll, h]

theorem SameOff.prepend {ws : List Slot} (ws' : List Slot) {a b : St} (h : SameOff ws a b) : SameOff (ws' ++ ws) a b := by
  induction ws' with
  | nil => exact h
  | cons x xs ih => exact ih.cons x

/-- the class of a builder is not a slot: no erasure and (so) no call changes it -/
theorem eraseAll_cls (ws : List Slot) (s : St) : (eraseAll ws s).r.fl.cls = s.r.fl.cls := by
  induction ws generalizing s with
  | nil => rfl
  | cons x xs ih =>
    simp only [eraseAll, List.foldl_cons] at ih ⊢
    rw [ih]; cases x <;> rfl

/-- what a builder carries besides its slots: class, dialect, AS-keyword and wrapping options, its own alias -/
def config (s : St) : QClass × Option Dialect × Bool × Bool × Option Str :=
  (s.r.fl.cls, s.r.fl.dialect, s.r.fl.asKeyword, s.r.fl.wrapSetOps, s.r.fl.alias)

theorem eraseAll_config (ws : List Slot) (s : St) : config (eraseAll ws s) = config s := by
  induction ws generalizing s with
  | nil => rfl
  | cons x xs ih =>
    simp only [eraseAll, List.foldl_cons] at ih ⊢
    rw [ih]; cases x <;> rfl

/-- **no builder call changes the rendering configuration of the statement** (class, dialect, AS keyword, operand wrapping,
alias): they are not slots, so the frame theorem leaves them alone — the dialect context of C07 is fixed when the builder is made -/
theorem step_config (s s' : St) (c : Call) (h : step s c = .ok s') : config s' = config s := by
  have := congrArg config (step_frame s s' c h)
  simpa only [eraseAll_config] using this

theorem step_cls (s s' : St) (c : Call) (h : step s c = .ok s') : s'.r.fl.cls = s.r.fl.cls := by
  have := congrArg (fun x => x.r.fl.cls) (step_frame s s' c h)
  simpa only [eraseAll_cls] using this

/-- **Frame of a chain.**  A chain of accepted calls changes nothing outside the union of its calls' write sets. -/
theorem run_frame (cs : List Call) : ∀ (s s' : St), run s cs = .ok s' →
    SameOff (cs.flatMap (writes s.r.fl.cls)) s' s := by
  induction cs with
  | nil => intro s s' h; cases ok_inj h; rfl
  | cons c cs ih =>
    intro s s' h
    unfold run at h
    cases h1 : step s c with
    | error e => simp [h1, bind, Except.bind] at h
    | ok s1 =>
      simp only [h1, bind, Except.bind] at h
      have h2 := ih s1 s' h
      rw [step_cls s s1 c h1] at h2
      simp only [List.flatMap_cons]
      exact (h2.prepend _).trans ((step_frame s s1 c h1).widen _)

theorem run_config (cs : List Call) : ∀ (s s' : St), run s cs = .ok s' → config s' = config s := by
  induction cs with
  | nil => intro s s' h; cases ok_inj h; rfl
  | cons c cs ih =>
    intro s s' h
    unfold run at h
    cases h1 : step s c with
    | error e => simp [h1, bind, Except.bind] at h
    | ok s1 =>
      simp only [h1, bind, Except.bind] at h
      rw [ih s1 s' h, step_config s s1 c h1]

/-! reading a slot through an erasure that does not name it -/

theorem eraseAll_limit (ws : List Slot) (s : St) (h : Slot.f_limit ∉ ws) : (eraseAll ws s).r.fl.limit = s.r.fl.limit := by
  induction ws generalizing s with
  | nil => rfl
  | cons x xs ih =>
    simp only [eraseAll, List.foldl_cons] at ih ⊢
    rw [ih _ (fun hx => h (List.mem_cons_of_mem _ hx))]
    cases x <;> first | rfl | exact absurd (List.mem_cons_self) h

theorem eraseAll_wheres (ws : List Slot) (s : St) (h : Slot.r_wheres ∉ ws) : (eraseAll ws s).r.wheres = s.r.wheres := by
  induction ws generalizing s with
  | nil => rfl
  | cons x xs ih =>
    simp only [eraseAll, List.foldl_cons] at ih ⊢
    rw [ih _ (fun hx => h (List.mem_cons_of_mem _ hx))]
    cases x <;> first | rfl | exact absurd (List.mem_cons_self) h

theorem eraseAll_selects (ws : List Slot) (s : St) (h : Slot.r_selects ∉ ws) : (eraseAll ws s).r.selects = s.r.selects := by
  induction ws generalizing s with
  | nil => rfl
  | cons x xs ih =>
    simp only [eraseAll, List.foldl_cons] at ih ⊢
    rw [ih _ (fun hx => h (List.mem_cons_of_mem _ hx))]
    cases x <;> first | rfl | exact absurd (List.mem_cons_self) h

theorem eraseAll_from (ws : List Slot) (s : St) (h : Slot.r_from_ ∉ ws) : (eraseAll ws s).r.from_ = s.r.from_ := by
  induction ws generalizing s with
  | nil => rfl
  | cons x xs ih =>
    simp only [eraseAll, List.foldl_cons] at ih ⊢
    rw [ih _ (fun hx => h (List.mem_cons_of_mem _ hx))]
    cases x <;> first | rfl | exact absurd (List.mem_cons_self) h

/-- a chain in which no call lists `_limit` leaves the limit alone (likewise the WHERE criterion, the select list, FROM) -/
theorem run_keeps_limit (cs : List Call) (s s' : St) (h : run s cs = .ok s')
    (hw : ∀ c ∈ cs, Slot.f_limit ∉ writes s.r.fl.cls c) : s'.r.fl.limit = s.r.fl.limit := by
  have hn : Slot.f_limit ∉ cs.flatMap (writes s.r.fl.cls) := by
    simp only [List.mem_flatMap, not_exists, not_and]; exact hw
  have := congrArg (fun x => x.r.fl.limit) (run_frame cs s s' h)
  simpa only [eraseAll_limit _ _ hn] using this

/-- **the last `limit` wins, whatever follows**: after `limit n`, any accepted chain of calls none of which lists `_limit`
(everything but `limit`, `slice`, `fetch_next`) ends with limit `n` -/
theorem limit_survives (n : Nat) (cs : List Call) (s s' : St) (h : run s (.limit n :: cs) = .ok s')
    (hw : ∀ c ∈ cs, Slot.f_limit ∉ writes s.r.fl.cls c) : s'.r.fl.limit = some n := by
  have h1 : step s (.limit n) = .ok { s with r := { s.r with fl := { s.r.fl with limit := some n } } } := rfl
  unfold run at h
  simp only [h1, bind, Except.bind] at h
  exact run_keeps_limit cs _ s' h hw

/-- the calls that list `_limit` are `limit` and `slice` (and `fetch_next`, which is traced as `limit`) — no others -/
theorem writes_limit_iff (cls : QClass) (c : Call) :
    Slot.f_limit ∈ writes cls c ↔ (∃ n, c = .limit n) ∨ (∃ a b, c = .slice a b) := by
  cases c <;> simp [writes]
  split <;> simp

theorem run_keeps_wheres (cs : List Call) (s s' : St) (h : run s cs = .ok s')
    (hw : ∀ c ∈ cs, Slot.r_wheres ∉ writes s.r.fl.cls c) : s'.r.wheres = s.r.wheres := by
  have hn : Slot.r_wheres ∉ cs.flatMap (writes s.r.fl.cls) := by
    simp only [List.mem_flatMap, not_exists, not_and]; exact hw
  have := congrArg (fun x => x.r.wheres) (run_frame cs s s' h)
  simpa only [eraseAll_wheres _ _ hn] using this

theorem run_keeps_selects (cs : List Call) (s s' : St) (h : run s cs = .ok s')
    (hw : ∀ c ∈ cs, Slot.r_selects ∉ writes s.r.fl.cls c) : s'.r.selects = s.r.selects := by
  have hn : Slot.r_selects ∉ cs.flatMap (writes s.r.fl.cls) := by
    simp only [List.mem_flatMap, not_exists, not_and]; exact hw
  have := congrArg (fun x => x.r.selects) (run_frame cs s s' h)
  simpa only [eraseAll_selects _ _ hn] using this

theorem run_keeps_from (cs : List Call) (s s' : St) (h : run s cs = .ok s')
    (hw : ∀ c ∈ cs, Slot.r_from_ ∉ writes s.r.fl.cls c) : s'.r.from_ = s.r.from_ := by
  have hn : Slot.r_from_ ∉ cs.flatMap (writes s.r.fl.cls) := by
    simp only [List.mem_flatMap, not_exists, not_and]; exact hw
  have := congrArg (fun x => x.r.from_) (run_frame cs s s' h)
  simpa only [eraseAll_from _ _ hn] using this

end Pypika.B
