import Pypika.RenderTerm
import Pypika.Generated.Tables
/-! Agree/Edges: model = table regenerated from /repo on this run (see Pypika/Agree.lean) -/
namespace Pypika.Agree
open Pypika

/-- G3: `Edge.__str__` -/
theorem edges : Gen.edges.all (fun (e, t) => decide (e.text = t)) = true ∧ Gen.edges.length = 10 := by decide +kernel

end Pypika.Agree
