import Pypika.BuilderLocal
import Pypika.Generated.Effects
import Pypika.Agree.Classes
/-! Agree/BuilderWrites: the write set the model gives each builder call (`B.writes`, the subject of `B.step_frame`) is the set
of attributes of `self` that the source of the real method writes — `Gen.builderEffects` / `Gen.helperEffects`, read off /repo's
working tree by `harness/effects.py` on this run (rebinds and in-place updates, following `self.helper()` and `super().m()`).
A method that starts writing another attribute, or stops writing one, breaks `writes_agree`; a new `@builder` method on a query
class breaks `methods_covered` until it is modelled or listed. -/
namespace Pypika.Agree
open Pypika Pypika.B

/-- Python builder class of a query class -/
def builderName : QClass → String
  | .generic => "QueryBuilder" | .mysql => "MySQLQueryBuilder" | .postgresql => "PostgreSQLQueryBuilder"
  | .redshift => "RedShiftQueryBuilder" | .oracle => "OracleQueryBuilder" | .mssql => "MSSQLQueryBuilder"
  | .sqlite => "SQLLiteQueryBuilder" | .vertica => "VerticaQueryBuilder" | .clickhouse => "ClickHouseQueryBuilder"
  | .snowflake => "SnowflakeQueryBuilder"

/-- attributes of `self` among a method's effects -/
def attrsOf (es : List Gen.Eff) : List Str :=
  es.filterMap fun e => match e with | .rebind a => some a | .inplace a => some a | _ => none

def lookupEff (tbl : List (Str × Str × List Gen.Eff)) (cls meth : String) : Option (List Str) :=
  (tbl.find? fun (c, m, _) => decide (c = cls.toList) && decide (m = meth.toList)).map fun x => attrsOf x.2.2

def sameSet (a b : List Str) : Bool := a.all b.contains && b.all a.contains

private def dSrc : Src := .table { name := none } false none
private def dTerm : Term := .star none

def everyClass : List QClass := allClasses
def notLocking : List QClass := [.generic, .redshift, .oracle, .mssql, .sqlite, .vertica, .clickhouse, .snowflake]

/-- (Python method, helpers it reaches through another object, a representative model call, the classes it is checked on) -/
def callSites : List (String × List String × Call × List QClass) := [
  ("from_", [], .from_ dSrc 0, everyClass),
  ("with_", [], .with_ dSrc [], everyClass),
  ("into", [], .into dSrc, everyClass),
  ("select", [], .select [], everyClass),
  ("delete", [], .delete, everyClass),
  ("update", [], .update dSrc, everyClass),
  ("columns", [], .columns [], everyClass),
  ("insert", [], .insert [], everyClass),
  ("replace", [], .replace [], everyClass),
  ("insert_or_replace", [], .insertOrReplace [], [.sqlite]),
  ("force_index", [], .forceIndex [], everyClass),
  ("use_index", [], .useIndex [], everyClass),
  ("distinct", [], .distinct, everyClass),
  ("for_update", [], .forUpdate, notLocking),
  ("for_update", [], .forUpdateEx false false [], [.mysql, .postgresql]),
  ("ignore", [], .ignore, everyClass),
  ("with_totals", [], .withTotals, everyClass),
  ("prewhere", [], .prewhere dTerm, everyClass),
  ("where", [], .where_ dTerm, everyClass),
  ("having", [], .having dTerm, everyClass),
  ("groupby", [], .groupby [], everyClass),
  ("rollup", [], .rollup [] false, everyClass),
  ("orderby", [], .orderby [] none, everyClass),
  ("join", ["do_join"], .join dSrc [] .cross, everyClass),
  ("limit", [], .limit 0, everyClass),
  ("fetch_next", [], .limit 0, [.oracle, .mssql]),
  ("offset", [], .offset 0, everyClass),
  ("slice", [], .slice none none, everyClass),
  ("set", [], .set (.str []) (.str []), everyClass),
  ("on_duplicate_key_update", [], .onDuplicateKeyUpdate (.str []) (.str []), [.mysql]),
  ("on_duplicate_key_ignore", [], .onDuplicateKeyIgnore, [.mysql]),
  ("modifier", [], .modifier [], [.mysql]),
  ("distinct_on", [], .distinctOn [], [.postgresql, .clickhouse]),
  ("on_conflict", [], .onConflict [], [.postgresql]),
  ("do_nothing", [], .doNothing, [.postgresql]),
  ("do_update", [], .doUpdate (.str []) none, [.postgresql]),
  ("using", [], .using dSrc, [.postgresql]),
  ("returning", [], .returning [], [.postgresql]),
  ("top", [], .top none false false, [.mssql]),
  ("final", [], .final, [.clickhouse]),
  ("sample", [], .sample 0 none, [.clickhouse]),
  ("limit_by", [], .limitBy 0 0 [], [.clickhouse]),
  ("limit_offset_by", [], .limitBy 0 0 [], [.clickhouse]),
  ("hint", [], .hint [], [.vertica])]

/-- `@builder` methods of the query classes that `B.step` does not carry: set-operation constructors (they write nothing to
`self`, see `setops_write_nothing`), `as_` (the alias is part of `Src`) and `replace_table` (modelled in `Replace.lean`) -/
def setopMethods : List String := ["union", "union_all", "intersect", "minus", "except_of"]
def elsewhere : List String := ["as_", "replace_table"]

/-- **the tie**: for every call site and class, the model's write set is the source's -/
theorem writes_agree :
    callSites.all (fun (meth, helpers, call, classes) =>
      classes.all fun cls =>
        match lookupEff Gen.builderEffects (builderName cls) meth with
        | none => false
        | some src =>
          let extra := helpers.flatMap fun h => (lookupEff Gen.helperEffects (builderName cls) h).getD []
          sameSet ((writes cls call).map fun w => w.attr.toList) (src ++ extra)) = true := by
  decide +kernel

def lookupReads (cls meth : String) : Option (List Str) :=
  (Gen.builderReads.find? fun (c, m, _) => decide (c = cls.toList) && decide (m = meth.toList)).map fun x => x.2.2

def slotAttrs : List Str := allSlots.map fun w => w.attr.toList

/-- **the tie for `reads`**: for every call site and class, the slots the model's call looks at or writes are exactly the
attributes of `self` (among those the model carries) that the source of the method loads or writes — a method that starts to
consult another clause of the statement at call time breaks this -/
theorem reads_agree :
    callSites.all (fun (meth, helpers, call, classes) =>
      classes.all fun cls =>
        match lookupEff Gen.builderEffects (builderName cls) meth, lookupReads (builderName cls) meth with
        | some srcW, some srcR =>
          let extraW := helpers.flatMap fun h => (lookupEff Gen.helperEffects (builderName cls) h).getD []
          let extraR := helpers.flatMap fun h => (lookupReads (builderName cls) h).getD []
          sameSet ((reads cls call ++ writes cls call).map fun w => w.attr.toList)
                  ((srcR ++ extraR).filter slotAttrs.contains ++ srcW ++ extraW)
        | _, _ => false) = true := by
  decide +kernel

/-- every `@builder` method the source defines on a query class has a call site above, or is listed as handled elsewhere -/
theorem methods_covered :
    Gen.builderEffects.all (fun (c, m, _) =>
      !(allClasses.any fun cls => decide (c = (builderName cls).toList)) ||
      (callSites.any fun (meth, _, _, classes) =>
        decide (m = meth.toList) && classes.any fun cls => decide (c = (builderName cls).toList)) ||
      (setopMethods ++ elsewhere).any fun x => decide (m = x.toList)) = true := by
  decide +kernel

/-- `union`, `intersect`, … build a new object and write nothing to the statement they are called on -/
theorem setops_write_nothing :
    allClasses.all (fun cls => setopMethods.all fun m =>
      lookupEff Gen.builderEffects (builderName cls) m == some []) = true := by
  decide +kernel

end Pypika.Agree
