import Pypika.DDLFrame
import Pypika.Generated.Effects
/-! Agree/DDLWrites: the write / read sets of the CREATE TABLE builder model (`DDLB.writesC`, `DDLB.readsC`, the subjects of
`stepC_frame` / `stepC_local`) are the attributes of `self` that the source of the real `CreateQueryBuilder` /
`VerticaCreateQueryBuilder` methods write / load (`Gen.builderEffects`, `Gen.builderReads`, read off /repo on this run). -/
namespace Pypika.Agree
open Pypika Pypika.DDLB

def attrsOfC (es : List Gen.Eff) : List Str :=
  es.filterMap fun e => match e with | .rebind a => some a | .inplace a => some a | _ => none

def lookupC (tbl : List (Str × Str × List Gen.Eff)) (cls meth : String) : Option (List Str) :=
  (tbl.find? fun (c, m, _) => decide (c = cls.toList) && decide (m = meth.toList)).map fun x => attrsOfC x.2.2

def lookupReadsC (cls meth : String) : Option (List Str) :=
  (Gen.ddlReads.find? fun (c, m, _) => decide (c = cls.toList) && decide (m = meth.toList)).map fun x => x.2.2

def sameSetC (a b : List Str) : Bool := a.all b.contains && b.all a.contains

def slotAttrsC : List Str := allCSlots.flatMap fun w => w.attrs.map String.toList

/-- (Python method, representative model call, classes it is checked on) -/
def ddlCallSites : List (String × CCall × List String) := [
  ("create_table", .createTable { name := none }, ["CreateQueryBuilder", "VerticaCreateQueryBuilder"]),
  ("temporary", .temporary, ["CreateQueryBuilder", "VerticaCreateQueryBuilder"]),
  ("unlogged", .unlogged, ["CreateQueryBuilder", "VerticaCreateQueryBuilder"]),
  ("with_system_versioning", .withSystemVersioning, ["CreateQueryBuilder", "VerticaCreateQueryBuilder"]),
  ("if_not_exists", .ifNotExists, ["CreateQueryBuilder", "VerticaCreateQueryBuilder"]),
  ("columns", .columns [], ["CreateQueryBuilder", "VerticaCreateQueryBuilder"]),
  ("period_for", .periodFor [] [] [], ["CreateQueryBuilder", "VerticaCreateQueryBuilder"]),
  ("unique", .unique [], ["CreateQueryBuilder", "VerticaCreateQueryBuilder"]),
  ("primary_key", .primaryKey [], ["CreateQueryBuilder", "VerticaCreateQueryBuilder"]),
  ("foreign_key", .foreignKey [] { name := none } [] none none, ["CreateQueryBuilder", "VerticaCreateQueryBuilder"]),
  ("as_select", .asSelect none, ["CreateQueryBuilder", "VerticaCreateQueryBuilder"]),
  ("local", .local, ["VerticaCreateQueryBuilder"]),
  ("preserve_rows", .preserveRows, ["VerticaCreateQueryBuilder"])]

theorem ddl_writes_agree :
    ddlCallSites.all (fun (meth, call, classes) =>
      classes.all fun cls =>
        match lookupC Gen.builderEffects cls meth with
        | none => false
        | some src => sameSetC ((writesC call).flatMap fun w => w.attrs.map String.toList) src) = true := by
  decide +kernel

theorem ddl_reads_agree :
    ddlCallSites.all (fun (meth, call, classes) =>
      classes.all fun cls =>
        match lookupC Gen.builderEffects cls meth, lookupReadsC cls meth with
        | some srcW, some srcR =>
          sameSetC ((readsC call ++ writesC call).flatMap fun w => w.attrs.map String.toList)
                   (srcR.filter slotAttrsC.contains ++ srcW)
        | _, _ => false) = true := by
  decide +kernel

/-- every `@builder` method of the two CREATE TABLE builders has a call site -/
theorem ddl_methods_covered :
    Gen.builderEffects.all (fun (c, m, _) =>
      !(decide (c = "CreateQueryBuilder".toList) || decide (c = "VerticaCreateQueryBuilder".toList)) ||
      ddlCallSites.any fun (meth, _, classes) => decide (m = meth.toList) && classes.any fun cls => decide (c = cls.toList)) = true := by
  decide +kernel

end Pypika.Agree
