import Pypika.RenderTerm
import Pypika.Generated.Tables
/-! Agree/Pagination: model = table regenerated from /repo on this run (see Pypika/Agree.lean) -/
namespace Pypika.Agree
open Pypika

/-- G3: pagination tail of every dialect on the grid {None,0,1,7}² -/
theorem pagination :
    Gen.pagination.all (fun (c, l, o, t) => decide (flatten (paginate c l o) = t)) = true ∧
      Gen.pagination.length = 160 := by
  decide +kernel

/-- G3: pagination tail of set operations on the same grid -/
theorem setop_pagination :
    Gen.setopPagination.all (fun (l, o, t) => decide (flatten (setopPaginate l o) = t)) = true ∧
      Gen.setopPagination.length = 16 := by
  decide +kernel

end Pypika.Agree
