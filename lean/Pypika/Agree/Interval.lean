import Pypika.RenderTerm
import Pypika.Generated.Tables
/-! Agree/Interval: model = table regenerated from /repo on this run (see Pypika/Agree.lean) -/
namespace Pypika.Agree
open Pypika

/-- G2: the interval templates: which dialects put the unit outside the quotes -/
theorem interval_templates :
    Gen.intervalTemplates.all (fun (d, t) =>
      decide (t = if Dialect.intervalQuotesUnit (some d) then "INTERVAL '{expr} {unit}'".toList
                  else "INTERVAL '{expr}' {unit}".toList)) = true ∧
    ([Dialect.clickhouse, .mssql, .sqllite, .snowflake].all (fun d =>
        Dialect.intervalQuotesUnit (some d) && !(Gen.intervalTemplates.map (·.1)).contains d)) = true := by
  decide +kernel

theorem interval_labels : Gen.intervalLabels = labels := by decide +kernel

/-- G2: the trimming regular expression is still the one `intervalTrim` was written for -/
theorem interval_pattern : Gen.intervalPattern = trimPatternText := by decide +kernel

def ivOf (xs : List Nat) : IntervalArgs :=
  { years := xs.getD 0 0, months := xs.getD 1 0, days := xs.getD 2 0, hours := xs.getD 3 0,
    minutes := xs.getD 4 0, seconds := xs.getD 5 0, microseconds := xs.getD 6 0 }

/-- the real `Interval.__str__` on every 7-tuple over {0,1,10,101} with ≤ 2 non-zero fields -/
theorem interval_grid :
    Gen.intervalGrid.all (fun (xs, t) => decide (intervalText none (ivOf xs) = t)) = true ∧
      Gen.intervalGrid.length = 211 := by
  decide +kernel

end Pypika.Agree
