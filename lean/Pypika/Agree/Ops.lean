import Pypika.RenderTerm
import Pypika.Generated.Tables
/-! Agree/Ops: model = table regenerated from /repo on this run (see Pypika/Agree.lean) -/
namespace Pypika.Agree
open Pypika

/-- G1: operator spellings -/
theorem arith_text : Gen.arithText.all (fun (o, t) => decide (o.text = t)) = true ∧ Gen.arithText.length = 6 := by decide
theorem bool_text : Gen.boolText.all (fun (o, t) => decide (o.text = t)) = true ∧ Gen.boolText.length = 3 := by decide
theorem order_text : Gen.orderText.all (fun (o, t) => decide (o.text = t)) = true ∧ Gen.orderText.length = 2 := by decide

def topOf : Option Arith → TopOp | none => .none | some a => .op a

/-- G3: `left_needs_parens` on its whole 6 × 7 domain -/
theorem left_parens :
    Gen.leftParens.all (fun (c, l, b) => decide (leftNeedsParens c (topOf l) = b)) = true ∧ Gen.leftParens.length = 42 := by
  decide

/-- G3: `right_needs_parens` on its whole 6 × 7 domain -/
theorem right_parens :
    Gen.rightParens.all (fun (c, l, b) => decide (rightNeedsParens c (topOf l) = b)) = true ∧ Gen.rightParens.length = 42 := by
  decide

def complexOf (o : Option BoolOp) : Term :=
  match o with
  | none => .basic ['='] (.field ['a'] none none) (.val (.num ['1']) none) none
  | some op => .complex op (.field ['a'] none none) (.field ['a'] none none) none

/-- G3: `ComplexCriterion.needs_brackets` on its whole 3 × 4 domain -/
theorem needs_brackets :
    Gen.needsBrackets.all (fun (s, c, b) => decide (needsBrackets s (complexOf c) = b)) = true ∧
      Gen.needsBrackets.length = 12 := by
  decide

end Pypika.Agree
