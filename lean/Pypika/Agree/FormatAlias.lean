import Pypika.RenderTerm
import Pypika.Generated.Tables
/-! Agree/FormatAlias: model = table regenerated from /repo on this run (see Pypika/Agree.lean) -/
namespace Pypika.Agree
open Pypika

/-- G3: `format_alias_sql` on all flag combinations -/
theorem format_alias :
    Gen.formatAlias.all (fun (a, q, aq, ak, t) =>
      decide (flatten ([Piece.kw ['S']] ++ aliasDoc { aliasQuote := some aq, asKeyword := some ak } q a) = t)) = true ∧
      Gen.formatAlias.length = 16 := by
  decide +kernel

end Pypika.Agree
