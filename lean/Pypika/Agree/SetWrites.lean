import Pypika.SetFrame
import Pypika.Generated.Effects
/-! Agree/SetWrites: the write sets of the set-operation builder model (`B.writesS`, subject of `B.stepS_frame`) are the source's. -/
namespace Pypika.Agree
open Pypika Pypika.B

def setopSites : List (String × SCall) := [
  ("orderby", .orderby [] none), ("limit", .limit 0), ("offset", .offset 0),
  ("union", .op [] (.mk {} [] [] [] none none [] [] none none none [] [] [] [] [] [] [] [] [] none none [] [])),
  ("union_all", .op [] (.mk {} [] [] [] none none [] [] none none none [] [] [] [] [] [] [] [] [] none none [] [])),
  ("intersect", .op [] (.mk {} [] [] [] none none [] [] none none none [] [] [] [] [] [] [] [] [] none none [] [])),
  ("except_of", .op [] (.mk {} [] [] [] none none [] [] none none none [] [] [] [] [] [] [] [] [] none none [] [])),
  ("minus", .op [] (.mk {} [] [] [] none none [] [] none none none [] [] [] [] [] [] [] [] [] none none [] []))]

/-- per method of `_SetOperation`: the model's write set is the source's; and every `@builder` method of the class is listed -/
theorem setop_writes_agree :
    (setopSites.all fun (meth, call) =>
      match Gen.builderEffects.find? fun (c, m, _) => decide (c = "_SetOperation".toList) && decide (m = meth.toList) with
      | none => false
      | some (_, _, es) =>
        let src := es.filterMap fun e => match e with | .rebind a => some a | .inplace a => some a | _ => none
        let mine := (writesS call).map fun w => w.attr.toList
        mine.all src.contains && src.all mine.contains) &&
    (Gen.builderEffects.all fun (c, m, _) =>
      !decide (c = "_SetOperation".toList) || m = "as_".toList || setopSites.any fun (meth, _) => decide (m = meth.toList)) = true := by
  decide +kernel

end Pypika.Agree
