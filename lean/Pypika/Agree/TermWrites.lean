import Pypika.TermFrame
import Pypika.Generated.Effects
/-! Agree/TermWrites: the components the term-level builder model writes per call (`B.writesT`, subject of `B.stepT_frame_func`
/ `stepT_frame_case`) are the attributes the source of the real methods writes. -/
namespace Pypika.Agree
open Pypika Pypika.B

private def e0 : Edge := .current

/-- (class that defines the method, method, representative model call) -/
def termSites : List (String × String × TCall) := [
  ("Term", "as_", .as_ none),
  ("Case", "when", .when .empty (.str [])),
  ("Case", "else_", .else_ (.str [])),
  ("AggregateFunction", "filter", .filter []),
  ("AnalyticFunction", "over", .over []),
  ("AnalyticFunction", "orderby", .orderby [] none),
  ("WindowFrameAnalyticFunction", "rows", .frame [] e0 none),
  ("WindowFrameAnalyticFunction", "range", .frame [] e0 none),
  ("IgnoreNullsAnalyticFunction", "ignore_nulls", .ignoreNulls),
  ("DistinctOptionFunction", "distinct", .distinct)]

theorem term_writes_agree :
    termSites.all (fun (cls, meth, call) =>
      match Gen.builderEffects.find? fun (c, m, _) => decide (c = cls.toList) && decide (m = meth.toList) with
      | none => false
      | some (_, _, es) =>
        let src := es.filterMap fun e => match e with | .rebind a => some a | .inplace a => some a | _ => none
        let mine := (writesT call).flatMap fun w => w.attrs.map String.toList
        mine.all src.contains && src.all mine.contains) = true := by
  decide +kernel

end Pypika.Agree
