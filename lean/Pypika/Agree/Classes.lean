import Pypika.RenderTerm
import Pypika.Generated.Tables
/-! Agree/Classes: model = table regenerated from /repo on this run (see Pypika/Agree.lean) -/
namespace Pypika.Agree
open Pypika

def allClasses : List QClass :=
  [.generic, .mysql, .postgresql, .redshift, .oracle, .mssql, .sqlite, .vertica, .clickhouse, .snowflake]

/-- G2: the table lists exactly the ten query classes, in order -/
theorem classes_complete : Gen.classes.map (·.1) = allClasses := by decide

/-- G2: QUOTE_CHAR / ALIAS_QUOTE_CHAR / query-alias quote per class -/
theorem class_quotes :
    Gen.classes.all (fun (c, q, aq, qaq, _) =>
      decide (c.quoteChar = q) && decide (c.aliasQuoteChar = aq) && decide (c.queryAliasQuoteChar = qaq)) = true := by
  decide

/-- G2: every class uses `'` for literals (the model's `setDefaults` hard-codes it) -/
theorem secondary_quote : Gen.secondaryQuotes.all (fun q => decide (q = some '\'')) = true := by decide

end Pypika.Agree
