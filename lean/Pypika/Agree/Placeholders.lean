import Pypika.RenderTerm
import Pypika.Param
import Pypika.Generated.Tables
/-! Agree/Placeholders: model = table regenerated from /repo on this run (see Pypika/Agree.lean) -/
namespace Pypika.Agree
open Pypika

def styleOf (s : Str) : Option ParamStyle :=
  if s = "qmark".toList then some .qmark else if s = "numeric".toList then some .numeric
  else if s = "format".toList then some .format else if s = "named".toList then some .named
  else if s = "pyformat".toList then some .pyformat else none

/-- placeholder generators and key slicing of the five collector classes -/
theorem placeholders :
    Gen.placeholders.all (fun (st, n, sql, key) =>
      match styleOf st with
      | some s => decide (placeholder s n = sql) && decide (paramKey s sql = key)
      | none => false) = true ∧ Gen.placeholders.length = 30 := by
  decide +kernel

end Pypika.Agree
