import Pypika.BuilderFrame
/-!
# Locality of the builder calls: what a call reads

`reads cls call` lists the slots a call looks at besides the ones it writes.  `step_local`: replacing any *other* slot of the
receiver (by the value another state has there) commutes with the call — the same exception, or the same new state with that
slot replaced.  With the frame theorem this gives `calls_commute`: two calls neither of which reads or writes a slot the other
writes give the same result in either order, whatever their arguments.  `Agree/BuilderWrites.lean` ties `reads` to the
attributes the source of the real method loads.
-/
namespace Pypika.B
open Pypika

def reads (cls : QClass) : Call → List Slot
  | .into _ => [.r_selects]
  | .select _ => [.r_from_]
  | .delete => [.r_selects, .r_updateTable]
  | .update _ => [.r_selects, .f_deleteFrom]
  | .columns _ | .insert _ | .replace _ | .insertOrReplace _ => [.r_insertTable]
  | .prewhere _ => [.r_from_, .r_updateTable, .r_joins]
  | .where_ _ =>
      if cls = .postgresql then
        [.r_from_, .r_updateTable, .r_joins, .f_onConflict, .f_onConflictDoNothing, .r_onConflictFields, .r_onConflictDoUpdates]
      else [.r_from_, .r_updateTable, .r_joins]
  | .groupby _ | .orderby .. => [.r_from_]
  | .join .. => [.r_from_, .r_updateTable, .r_withs]
  | .onDuplicateKeyUpdate .. => [.f_ignoreDuplicates]
  | .onDuplicateKeyIgnore => [.r_duplicateUpdates]
  | .onConflict _ => [.r_insertTable]
  | .doNothing => [.r_onConflictDoUpdates]
  | .doUpdate .. => [.f_onConflictDoNothing, .r_insertTable]
  | .returning _ => [.r_insertTable, .r_updateTable, .f_deleteFrom, .r_from_, .r_joins]
  | _ => []

@[simp] theorem map_pure' (f : St → St) (y : St) : Except.map f (pure y : R) = pure (f y) := rfl
@[simp] theorem map_raise' (f : St → St) (e : String) : Except.map f (raise e) = raise e := rfl
@[simp] theorem map_error' (f : St → St) (e : Str) : Except.map f (.error e : R) = .error e := rfl
@[simp] theorem map_ok' (f : St → St) (y : St) : Except.map f (.ok y : R) = .ok (f y) := rfl

set_option linter.unusedSimpArgs false

/-- unfold the call and the slot replacement, push the replacement through `if`, split the `match`es (both sides have the same
discriminants once the replaced slot is not one the call reads), close by reflexivity -/
macro "local_tac" " [" ds:ident,* "]" : tactic => `(tactic| (
  simp only [$[$ds:ident],*, copySlot, isSqlite, apply_ite (Except.map _), map_pure', map_raise', map_error', map_ok']
  repeat' (first
    | rfl
    | (refine ite_congr rfl (fun _ => ?_) (fun _ => ?_))
    | (split <;> try simp only [apply_ite (Except.map _), map_pure', map_raise', map_error', map_ok']))))

/-- the slot is listed: the hypothesis is false -/
macro "listed" " [" ds:ident,* "]" h:ident : tactic => `(tactic| (exfalso; simp [$[$ds:ident],*] at $h:ident; done))

theorem selectField_local (s x : St) (t : Term) (tbl : Option TRef) (b : Bool) (w : Slot)
    (hw : w ∉ [Slot.r_selects, .h_selectStar, .h_starTables]) :
    selectField (copySlot w x s) t tbl b = copySlot w x (selectField s t tbl b) := by
  cases w
  all_goals first
    | listed [] hw
    | (simp only [selectField, apply_ite (copySlot _ x)]; simp only [copySlot]; rfl)

theorem selectOne_local (s x : St) (a : Arg) (w : Slot)
    (hw : w ∉ [Slot.r_from_, .r_selects, .h_selectStar, .h_starTables]) :
    selectOne (copySlot w x s) a = (selectOne s a).map (copySlot w x) := by
  have hf : ∀ t tbl b, selectField (copySlot w x s) t tbl b = copySlot w x (selectField s t tbl b) :=
    fun t tbl b => selectField_local s x t tbl b w (fun h => hw (List.mem_cons_of_mem _ h))
  unfold selectOne
  split
  · rw [hf]; rfl
  · rw [hf]; rfl
  · cases w <;> first | listed [] hw | rfl
  · have hfrom : (copySlot w x s).r.from_ = s.r.from_ := by cases w <;> first | listed [] hw | rfl
    rw [hfrom]
    split
    · rfl
    · simp only [apply_ite (Except.map _), map_pure', hf]
      split
      · cases w <;> first | listed [] hw | rfl
      · rfl
  · cases w <;> first | listed [] hw | rfl

theorem bind_local (f : St → St) (m m' : R) (g g' : St → R) (hm : m' = m.map f)
    (hg : ∀ t, g' (f t) = (g t).map f) : (m' >>= g') = (m >>= g).map f := by
  subst hm
  cases m with
  | error e => rfl
  | ok t => exact hg t

theorem selectAll_local (args : List Arg) (x : St) (w : Slot)
    (hw : w ∉ [Slot.r_from_, .r_selects, .h_selectStar, .h_starTables]) :
    ∀ s, selectAll (copySlot w x s) args = (selectAll s args).map (copySlot w x) := by
  induction args with
  | nil => intro s; rfl
  | cons a as ih =>
    intro s
    unfold selectAll
    exact bind_local _ _ _ _ _ (selectOne_local s x a w hw) ih

theorem applyTerms_local (s x : St) (args : List Arg) (w : Slot) (hw : w ∉ [Slot.r_insertTable, .r_values]) :
    applyTerms (copySlot w x s) args = (applyTerms s args).map (copySlot w x) := by
  cases w
  all_goals first
    | listed [] hw
    | local_tac [applyTerms]

theorem returnRejects_local (s x : St) (t : Term) (w : Slot)
    (hw : w ∉ [Slot.r_insertTable, .r_updateTable, .f_deleteFrom, .r_from_, .r_joins]) :
    returnRejects (copySlot w x s).r t = returnRejects s.r t := by
  cases w <;> first | listed [] hw | rfl

theorem returnField_local (s x : St) (t : Term) (b : Bool) (w : Slot)
    (hw : w ∉ [Slot.r_insertTable, .r_updateTable, .f_deleteFrom, .r_from_, .r_joins, .r_returns, .h_returnStar]) :
    returnField (copySlot w x s) t b = (returnField s t b).map (copySlot w x) := by
  have hr : returnRejects (copySlot w x s).r t = returnRejects s.r t :=
    returnRejects_local s x t w (by simp only [List.mem_cons, not_or] at hw ⊢; simp_all)
  unfold returnField
  rw [hr]
  cases w
  all_goals first
    | listed [] hw
    | local_tac [copySlot]

theorem returnOther_local (s x : St) (t : Term) (w : Slot)
    (hw : w ∉ [Slot.r_insertTable, .r_updateTable, .f_deleteFrom, .r_from_, .r_joins, .r_returns, .h_returnStar]) :
    returnOther (copySlot w x s) t = (returnOther s t).map (copySlot w x) := by
  have hr : returnRejects (copySlot w x s).r t = returnRejects s.r t :=
    returnRejects_local s x t w (by simp only [List.mem_cons, not_or] at hw ⊢; simp_all)
  unfold returnOther
  rw [hr]
  cases w
  all_goals first
    | listed [] hw
    | local_tac [copySlot]

theorem returnOne_local (s x : St) (a : Arg × Bool) (w : Slot)
    (hw : w ∉ [Slot.r_insertTable, .r_updateTable, .f_deleteFrom, .r_from_, .r_joins, .r_returns, .h_returnStar]) :
    returnOne (copySlot w x s) a = (returnOne s a).map (copySlot w x) := by
  have hF := fun t b => returnField_local s x t b w hw
  have hO := fun t => returnOther_local s x t w hw
  cases w
  all_goals first
    | listed [] hw
    | (simp only [returnOne, hF, hO]; local_tac [copySlot])

theorem returnAll_local (args : List (Arg × Bool)) (x : St) (w : Slot)
    (hw : w ∉ [Slot.r_insertTable, .r_updateTable, .f_deleteFrom, .r_from_, .r_joins, .r_returns, .h_returnStar]) :
    ∀ s, returnAll (copySlot w x s) args = (returnAll s args).map (copySlot w x) := by
  induction args with
  | nil => intro s; rfl
  | cons a as ih =>
    intro s
    unfold returnAll
    exact bind_local _ _ _ _ _ (returnOne_local s x a w hw) ih

theorem validateTable_local (s x : St) (t : Term) (w : Slot) (hw : w ∉ [Slot.r_from_, .r_updateTable, .r_joins]) :
    validateTable (copySlot w x s).r t = validateTable s.r t := by
  cases w <;> first | listed [] hw | rfl

theorem joinMissing_local (s x : St) (i : Src) (t : Term) (w : Slot)
    (hw : w ∉ [Slot.r_from_, .r_updateTable, .r_withs, .r_joins]) :
    joinMissing (copySlot w x s).r i t = joinMissing s.r i t := by
  cases w <;> first | listed [] hw | rfl

theorem tableInBase_local (s x : St) (t : TRef) (w : Slot) (hw : w ∉ [Slot.r_from_, .r_updateTable]) :
    tableInBase (copySlot w x s).r t = tableInBase s.r t := by
  cases w <;> first | listed [] hw | rfl

theorem wherePath_local (s x : St) (c : Term) (w : Slot)
    (hw : w ∉ [Slot.f_onConflict, .f_onConflictDoNothing, .r_onConflictFields, .r_onConflictDoUpdates]) :
    wherePath (copySlot w x s) c = wherePath s c := by
  cases w <;> first | listed [] hw | rfl

theorem wherePath_other (s : St) (c : Term) (h : s.r.fl.cls ≠ .postgresql) :
    wherePath s c = if c.isEmpty then .skip else .generic := by
  unfold wherePath
  simp [h]

theorem whereApply_local (s x : St) (c : Term) (p : WherePath) (w : Slot)
    (hw : w ∉ [Slot.r_from_, .r_updateTable, .r_joins, .f_foreignTable, .r_wheres, .r_onConflictDoUpdateWheres, .r_onConflictWheres]) :
    whereApply (copySlot w x s) c p = (whereApply s c p).map (copySlot w x) := by
  have hv : validateTable (copySlot w x s).r c = validateTable s.r c :=
    validateTable_local s x c w (by simp only [List.mem_cons, not_or] at hw ⊢; simp_all)
  cases p
  all_goals (
    simp only [whereApply, hv]
    cases w
    all_goals first
      | listed [] hw
      | local_tac [copySlot])

theorem whereApply_local_other (s x : St) (c : Term) (p : WherePath) (w : Slot) (hp : p = .skip ∨ p = .generic)
    (hw : w ∉ [Slot.r_from_, .r_updateTable, .r_joins, .f_foreignTable, .r_wheres]) :
    whereApply (copySlot w x s) c p = (whereApply s c p).map (copySlot w x) := by
  have hv : validateTable (copySlot w x s).r c = validateTable s.r c :=
    validateTable_local s x c w (by simp only [List.mem_cons, not_or] at hw ⊢; simp_all)
  rcases hp with rfl | rfl
  all_goals (
    simp only [whereApply, hv]
    cases w
    all_goals first
      | listed [] hw
      | local_tac [copySlot])

/-- locality of one call: replacing a slot it neither reads nor writes commutes with it -/
def LocalAt (c : Call) : Prop :=
  ∀ (s x : St) (w : Slot), w ∉ reads s.r.fl.cls c → w ∉ writes s.r.fl.cls c →
    step (copySlot w x s) c = (step s c).map (copySlot w x)

end Pypika.B
