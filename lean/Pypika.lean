import Pypika.Base
import Pypika.Syntax
import Pypika.Ctx
import Pypika.Render
import Pypika.RenderTerm
import Pypika.Param
import Pypika.Agree
