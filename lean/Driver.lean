import Pypika.Decode
/-!
# Driver: JSON-lines protocol between the harness and the model

One request per line on stdin, one response per line on stdout.  Unknown operations and
ill-formed cases answer `{"bad": …}`; nothing is defaulted.
-/
open Lean Pypika

def strOf (s : Str) : String := String.ofList s

def firstErr : Doc → Option Str
  | [] => none
  | .err e :: _ => some e
  | _ :: ps => firstErr ps

def pvalJson : PVal → Json
  | .str s => Json.mkObj [("t", "str"), ("v", Json.str (strOf s))]
  | .num s => Json.mkObj [("t", "num"), ("v", Json.str (strOf s))]

def respondDoc (j : Json) (d : Doc) : Json :=
  match firstErr d with
  | some e => Json.mkObj [("exc", Json.str (strOf e))]
  | none =>
    let style := fld j "style"
    if style.isNull then Json.mkObj [("sql", Json.str (strOf (flatten d)))]
    else
      match (do dStyle (← style.getStr?) : D ParamStyle) with
      | .error e => Json.mkObj [("bad", Json.str e)]
      | .ok st =>
        let (t, vs) := flattenP st d
        let keys := (List.range vs.length).map fun i => Json.str (strOf (paramKey st (placeholder st i)))
        Json.mkObj [("sql", Json.str (strOf t)), ("params", Json.arr (vs.map pvalJson).toArray),
                    ("keys", Json.arr keys.toArray),
                    ("inline", Json.str (strOf (flatten (uncollect d))))]

def handle (j : Json) : Json :=
  match (fld j "op").getStr? with
  | .ok "render" =>
    match (do pure ((← dCtx (fld j "ctx")), (← dTerm (fld j "term"))) : D (Ctx × Pypika.Term)) with
    | .ok (c, t) => respondDoc j (render c t)
    | .error e => Json.mkObj [("bad", Json.str e)]
  | .ok "replace" =>
    -- the model of `x.replace_table(a, b)` (policy `Pol.code`), rendered
    match (do pure ((← dCtx (fld j "ctx")), (← dTerm (fld j "term")), (← dTRef (fld j "a")), (← dTRef (fld j "b"))) : D (Ctx × Pypika.Term × TRef × TRef)) with
    | .ok (c, t, a, b) => respondDoc j (render c (replaceT a b t))
    | .error e => Json.mkObj [("bad", Json.str e)]
  | .ok "tagcalls" =>
    -- names invented by a sequence of from_(sub with its own counter) / join calls on a statement whose counter is `count`
    let r : D (Nat × List C10.TagCall) := do
      let cs ← (← fArr j "calls").mapM (fun c => do
        match (← (fld c "k").getStr?) with
        | "from" => pure (C10.TagCall.from_ (← (fld c "sub").getNat?))
        | "join" => pure C10.TagCall.join
        | k => throw s!"tag call {k}")
      pure ((← (fld j "count").getNat?), cs)
    match r with
    | .ok (count, cs) => Json.mkObj [("names", Json.arr ((C10.tagCalls count cs).map (fun n => Json.str (strOf n))).toArray)]
    | .error e => Json.mkObj [("bad", Json.str e)]
  | .ok "renderSrc" =>
    match (do pure ((← dCtx (fld j "ctx")), (← dSrc (fld j "src"))) : D (Ctx × Src)) with
    | .ok (c, s) => respondDoc j (renderSrc c s)
    | .error e => Json.mkObj [("bad", Json.str e)]
  | .ok "critfold" =>
    match (do pure ((← dCtx (fld j "ctx")), (← (← fArr j "terms").mapM dTerm), (← (fld j "kind").getStr?)) : D (Ctx × List Pypika.Term × String)) with
    | .ok (c, ts, kind) => respondDoc j (render c (if kind == "any" then anyOf ts else allOf ts))
    | .error e => Json.mkObj [("bad", Json.str e)]
  | .ok "wherefold" =>
    match (do pure ((← dCtx (fld j "ctx")), (← (← fArr j "terms").mapM dTerm)) : D (Ctx × List Pypika.Term)) with
    | .ok (c, ts) =>
      (match ts.foldl whereStep none with
       | none => Json.mkObj [("none", Json.bool true)]
       | some t => respondDoc j (render c t))
    | .error e => Json.mkObj [("bad", Json.str e)]
  | .ok "combine" =>
    match (do pure ((← dCtx (fld j "ctx")), (← dBoolOp (← (fld j "bop").getStr?)), (← dTerm (fld j "a")), (← dTerm (fld j "b"))) : D (Ctx × BoolOp × Pypika.Term × Pypika.Term)) with
    | .ok (c, op, a, b) => respondDoc j (render c (combine op a b))
    | .error e => Json.mkObj [("bad", Json.str e)]
  | .ok "build" =>
    match (do pure ((← (← fArr j "calls").mapM dCall), (← (← fArr j "froms").mapM (·.getNat?)), (← jOpt (·.getNat?) (fld j "update_table"))) : D (List C08.Call × List Nat × Option Nat)) with
    | .ok (calls, froms, upd) =>
      let s := C08.run { froms := froms, updateTable := upd } calls
      let ns (l : List Nat) := Json.arr (l.map (fun (n : Nat) => (toJson n))).toArray
      let on (o : Option Nat) := match o with | some n => toJson n | none => Json.null
      Json.mkObj [("selects", ns s.selects), ("froms", ns s.froms), ("joins", ns (s.joins.map (·.1))), ("wheres", ns s.wheres),
        ("prewheres", ns s.prewheres), ("havings", ns s.havings), ("groupbys", ns s.groupbys), ("orderbys", ns s.orderbys),
        ("limit", on s.limit), ("offset", on s.offset), ("distinct", Json.bool s.distinct), ("for_update", Json.bool s.forUpdate),
        ("withs", ns s.withs), ("force_index", ns s.forceIdx), ("use_index", ns s.useIdx), ("updates", ns s.updates),
        ("columns", ns s.columns), ("values", ns s.values), ("foreign", Json.bool s.foreign), ("with_namespace", Json.bool (C08.wantsNs s))]
    | .error e => Json.mkObj [("bad", Json.str e)]
  | .ok "guard" =>
    let nats (k : String) : D (List Nat) := do (← fArr j k).mapM (·.getNat?)
    let b (k : String) : Bool := ((fld j k).getBool?).toOption.getD false
    let r : D Bool := do
      match (← (fld j "guard").getStr?) with
      | "join" => pure (Guard.joinRaises (← nats "ct") (← nats "base") (← nats "joined") (← (fld j "item").getNat?))
      | "custom_function" => pure (Guard.customFunctionRaises (← jOpt (·.getNat?) (fld j "params")) (← (fld j "nargs").getNat?))
      | "select_str" => pure (Guard.selectStrRaises (← (fld j "nfrom").getNat?))
      | "update" => pure (Guard.updateRaises (b "has_update") (b "has_selects") (b "delete_from"))
      | "delete" => pure (Guard.deleteRaises (b "delete_from") (b "has_selects") (b "has_update"))
      | "into" => pure (Guard.intoRaises (b "has_insert"))
      | "top" => pure (Guard.topRaises (b "is_int") (← (fld j "value").getInt?) (b "percent"))
      | "returning" => pure (Guard.returningRaises (b "has_dml") (← nats "targets") (← nats "field_tables") (← nats "known"))
      | "once" => pure (b "already")
      | g => throw s!"guard {g}"
    match r with
    | .ok v => Json.mkObj [("raises", Json.bool v)]
    | .error e => Json.mkObj [("bad", Json.str e)]
  | .ok "create" =>
    match (do pure ((← dCtx (fld j "ctx")), (← dCreate (fld j "d"))) : D (Ctx × CreateD)) with
    | .ok (c, d) => respondDoc j (renderCreate c d)
    | .error e => Json.mkObj [("bad", Json.str e)]
  | .ok "create_index" =>
    match dIndex (fld j "d") with
    | .ok d => respondDoc j (renderCreateIndex d)
    | .error e => Json.mkObj [("bad", Json.str e)]
  | .ok "drop" =>
    match dDrop (fld j "d") with
    | .ok d => respondDoc j (renderDrop d)
    | .error e => Json.mkObj [("bad", Json.str e)]
  | .ok "bstep" =>
    -- builder calls on the state read from a real receiver.  Answers the exception class, or — given the state read
    -- from the real result (`post`) — whether the model's post-state renders like it, plus the bookkeeping attributes
    match (do pure ((← dCtx (fld j "ctx")), (← dBSt (fld j "st")), (← (← fArr j "calls").mapM dBCall),
                    (← jOpt dQuery (fld j "post"))) : D (Ctx × B.St × List B.Call × Option Query)) with
    | .ok (c, st, calls, post) =>
      (match B.run st calls with
       | .error e => Json.mkObj [("exc", Json.str (strOf e))]
       | .ok s' =>
         let rtext (d : Doc) : String := match firstErr d with
           | some e => "!exc:" ++ strOf e
           | none => strOf (flatten d)
         let mine := rtext (render c (.sub s'.r.toQ))
         let tref (t : Option TRef) : Json := match t with
           | none => Json.null
           | some t => Json.mkObj [("name", match t.name with | some n => Json.str (strOf n) | none => Json.null),
                                   ("schema", Json.arr (t.schema.map (fun x => Json.str (strOf x))).toArray),
                                   ("alias", match t.alias with | some n => Json.str (strOf n) | none => Json.null)]
         let hidden := [("select_star", Json.bool s'.selectStar),
           ("star_tables", Json.arr (s'.starTables.map tref).toArray), ("sub_count", toJson s'.subCount), ("return_star", Json.bool s'.returnStar)]
         match post with
         | none => Json.mkObj ([("sql", Json.str mine)] ++ hidden)
         | some pq =>
           let theirs := rtext (render c (.sub pq))
           if mine == theirs then Json.mkObj ([("agree", Json.bool true)] ++ hidden)
           else Json.mkObj ([("agree", Json.bool false), ("model_sql", Json.str mine), ("impl_sql", Json.str theirs)] ++ hidden))
    | .error e => Json.mkObj [("bad", Json.str e)]
  | .ok "cstep" =>
    -- CREATE TABLE builder calls on the state read from a real receiver (see `bstep`)
    match (do pure ((← dCreate (fld j "st")), (← (← fArr j "calls").mapM dCCall), (← jOpt dCreate (fld j "post"))) : D (CreateD × List DDLB.CCall × Option CreateD)) with
    | .ok (st, calls, post) =>
      (match DDLB.runC st calls with
       | .error e => Json.mkObj [("exc", Json.str (strOf e))]
       | .ok d' =>
         let rtext (d : Doc) : String := match firstErr d with
           | some e => "!exc:" ++ strOf e
           | none => strOf (flatten d)
         let c : Ctx := {}
         -- the statement text, and the body clauses on their own (a state without columns renders as the empty text)
         let rtext (x : CreateD) : String := rtext (renderCreate c x) ++ " | " ++ rtext (joinDocs (K ",") (x.bodyClauses (x.ctx c)))
         let mine := rtext d'
         match post with
         | none => Json.mkObj [("sql", Json.str mine)]
         | some pd =>
           let theirs := rtext pd
           -- the flags are compared as well: a flag that is not rendered in this state still matters to later calls
           let flags (x : CreateD) : List Bool := [x.temporary, x.unlogged, x.ifNotExists, x.systemVersioning, x.local, x.preserveRows,
             x.table.isSome, x.asSelect.isSome, (match x.primaryKey with | some pk => !pk.isEmpty | none => false),
             (match x.foreignKey with | some (k, _, _) => !k.isEmpty | none => false)]
           let shape (x : CreateD) : List Nat := [x.columns.length, x.periodFors.length, x.uniques.length]
           if mine == theirs && flags d' == flags pd && shape d' == shape pd then Json.mkObj [("agree", Json.bool true)]
           else Json.mkObj [("agree", Json.bool false), ("model_sql", Json.str mine), ("impl_sql", Json.str theirs),
                            ("model_flags", toJson (flags d')), ("impl_flags", toJson (flags pd))])
    | .error e => Json.mkObj [("bad", Json.str e)]
  | .ok "sstep" =>
    -- set-operation builder calls (see `bstep`); `from_query` + `name` + `other`: the constructor on a QueryBuilder
    let rtext (d : Doc) : String := match firstErr d with
      | some e => "!exc:" ++ strOf e
      | none => strOf (flatten d)
    let c : Ctx := {}
    let start : D SetOp :=
      if (fld j "from_query").isNull then dSetOp (fld j "st")
      else do pure (B.mkSetOp { r := B.QR.ofQ (← dQuery (fld j "from_query")) } (← fStr j "name") (← dQuery (fld j "other")))
    match (do pure ((← start), (← (← fArr j "calls").mapM dSCall), (← jOpt dSetOp (fld j "post"))) : D (SetOp × List B.SCall × Option SetOp)) with
    | .ok (st, calls, post) =>
      (match B.runS st calls with
       | .error e => Json.mkObj [("exc", Json.str (strOf e))]
       | .ok s' =>
         let mine := rtext (renderSetOp c s')
         match post with
         | none => Json.mkObj [("sql", Json.str mine)]
         | some ps =>
           let theirs := rtext (renderSetOp c ps)
           if mine == theirs then Json.mkObj [("agree", Json.bool true)]
           else Json.mkObj [("agree", Json.bool false), ("model_sql", Json.str mine), ("impl_sql", Json.str theirs)])
    | .error e => Json.mkObj [("bad", Json.str e)]
  | .ok "tstep" =>
    -- term-level builder call (see `bstep`)
    let rtext (d : Doc) : String := match firstErr d with
      | some e => "!exc:" ++ strOf e
      | none => strOf (flatten d)
    match (do pure ((← dCtx (fld j "ctx")), (← dTerm (fld j "st")), (← dTCall (fld j "call")), (← jOpt dTerm (fld j "post"))) : D (Ctx × Pypika.Term × B.TCall × Option Pypika.Term)) with
    | .ok (c, t, call, post) =>
      (match B.stepT t call with
       | .error e => Json.mkObj [("exc", Json.str (strOf e))]
       | .ok t' =>
         let mine := rtext (render c t')
         match post with
         | none => Json.mkObj [("sql", Json.str mine)]
         | some pt =>
           let theirs := rtext (render c pt)
           if mine == theirs then Json.mkObj [("agree", Json.bool true)]
           else Json.mkObj [("agree", Json.bool false), ("model_sql", Json.str mine), ("impl_sql", Json.str theirs)])
    | .error e => Json.mkObj [("bad", Json.str e)]
  | .ok "tbleq" =>
    match (do pure ((← dTbl (fld j "a")), (← dTbl (fld j "b"))) : D (Tbl × Tbl)) with
    | .ok (a, b) => Json.mkObj [("eq", Json.bool (a.beq b)), ("hash_eq", Json.bool (a.hashKey == b.hashKey)),
                                ("hash_a", Json.str (strOf a.hashKey))]
    | .error e => Json.mkObj [("bad", Json.str e)]
  | .ok "scheq" =>
    match (do pure ((← (← fArr j "a").mapM jStr), (← (← fArr j "b").mapM jStr)) : D (List Str × List Str)) with
    | .ok (a, b) =>
      (match schOfChain a, schOfChain b with
       | some x, some y => Json.mkObj [("eq", Json.bool (x.beq y)), ("hash_eq", Json.bool (x.hashKey == y.hashKey))]
       | _, _ => Json.mkObj [("bad", Json.str "empty schema chain")])
    | .error e => Json.mkObj [("bad", Json.str e)]
  | .ok op => Json.mkObj [("bad", Json.str s!"unknown op {op}")]
  | .error e => Json.mkObj [("bad", Json.str e)]

partial def loop (h : IO.FS.Stream) (out : IO.FS.Stream) : IO Unit := do
  let line ← h.getLine
  if line.isEmpty then return ()
  let resp := match Json.parse line with
    | .ok j => handle j
    | .error e => Json.mkObj [("bad", Json.str s!"json: {e}")]
  out.putStrLn resp.compress
  loop h out

def main : IO Unit := do
  let out ← IO.getStdout
  loop (← IO.getStdin) out
  out.flush
